// UNIT lexer — src/lexer/cursor.rs, src/lexer/mod.rs, src/parser/token_stream.rs, Span::new
// Every executable function below is extracted from /repo at run time (see tools/vgen.py).
use vstd::prelude::*;
use vstd::std_specs::iter::IteratorSpec;
use vstd::string::StringSliceAdditionalSpecFns;
use std::str::Chars;

verus! {

// ---- TRUSTED string model -------------------------------------------------------------
pub open spec fn char_len(c: char) -> nat {
    if (c as u32) < 0x80 { 1 } else if (c as u32) < 0x800 { 2 } else if (c as u32) < 0x10000 { 3 } else { 4 }
}
pub open spec fn utf8len(s: Seq<char>) -> nat decreases s.len() {
    if s.len() == 0 { 0 } else { char_len(s[0]) + utf8len(s.drop_first()) }
}
// TRUSTED (X4 target): byte length of a str is the sum of the UTF-8 lengths of its chars.
// vstd's own specification of str::len is too weak to give this and cannot be replaced,
// so the listed `.len()` call sites are rewritten to this wrapper (same operation).
#[verifier::external_body]
pub fn str_blen(s: &str) -> (r: usize) ensures r == utf8len(s@) { s.len() }

pub assume_specification<'a>[ Chars::<'a>::as_str ](c: &Chars<'a>) -> (r: &'a str)
    ensures r@ == c.remaining();

pub assume_specification<'a>[ <Chars<'a> as Clone>::clone ](c: &Chars<'a>) -> (r: Chars<'a>)
    ensures r.remaining() == c.remaining();

pub open spec fn suffix(a: Seq<char>, b: Seq<char>) -> bool { exists|k: int| 0 <= k <= a.len() && b == a.skip(k) }

/// the characters consumed between cursor states with remaining inputs `a` (before) and `b` (after)
pub open spec fn eaten(a: Seq<char>, b: Seq<char>) -> Seq<char> { a.subrange(0, a.len() - b.len()) }
pub proof fn lemma_utf8len_skip(s: Seq<char>, k: int)
    requires 0 <= k <= s.len()
    ensures utf8len(s) >= utf8len(s.skip(k)) + k
    decreases k
{
    if k == 0 { assert(s.skip(0) =~= s); }
    else {
        lemma_utf8len_skip(s.drop_first(), k - 1);
        assert(s.drop_first().skip(k - 1) =~= s.skip(k));
    }
}
pub proof fn lemma_suffix_trans(a: Seq<char>, b: Seq<char>, c: Seq<char>)
    requires suffix(a, b), suffix(b, c) ensures suffix(a, c)
{
    let k1 = choose|k: int| 0 <= k <= a.len() && b == a.skip(k);
    let k2 = choose|k: int| 0 <= k <= b.len() && c == b.skip(k);
    assert(a.skip(k1).skip(k2) =~= a.skip(k1 + k2));
}
pub broadcast proof fn lemma_suffix_trans_b(a: Seq<char>, b: Seq<char>, c: Seq<char>)
    requires #[trigger] suffix(a, b), #[trigger] suffix(b, c) ensures suffix(a, c)
{ lemma_suffix_trans(a, b, c); }
pub broadcast proof fn lemma_suffix_len(a: Seq<char>, b: Seq<char>)
    requires #[trigger] suffix(a, b) ensures utf8len(b) <= utf8len(a)
{
    let k = choose|k: int| 0 <= k <= a.len() && b == a.skip(k);
    lemma_utf8len_skip(a, k);
}

// ---- TRUSTED UTF-8 bridge between the char view (lexer) and the byte view (parser) of a str ----------
/// `i` is a byte offset of `s` on a char boundary (the parser unit's `gbnd`, for an explicit input)
pub open spec fn bnd(s: &str, i: int) -> bool { 0 <= i <= s.spec_bytes().len() && vstd::utf8::is_char_boundary(s.spec_bytes(), i) }
// (L1) the byte length of a str is the sum of the UTF-8 lengths of its chars
pub axiom fn axiom_utf8len_bytes(s: &str) ensures utf8len(s@) == s.spec_bytes().len();
// (L2) the bytes of the first k chars of a str end on a char boundary
pub axiom fn axiom_prefix_boundary(s: &str, k: int) requires 0 <= k <= s@.len() ensures bnd(s, utf8len(s@.subrange(0, k)) as int);
pub proof fn lemma_utf8len_split(a: Seq<char>, k: int)
    requires 0 <= k <= a.len()
    ensures utf8len(a) == utf8len(a.subrange(0, k)) + utf8len(a.skip(k))
    decreases k
{
    if k == 0 { assert(a.subrange(0, 0) =~= Seq::<char>::empty()); assert(a.skip(0) =~= a); }
    else {
        lemma_utf8len_split(a.drop_first(), k - 1);
        assert(a.drop_first().subrange(0, k - 1) =~= a.subrange(0, k).drop_first());
        assert(a.drop_first().skip(k - 1) =~= a.skip(k));
        assert(a.subrange(0, k)[0] == a[0]);
    }
}
} // verus!

pub mod lexer {
use vstd::prelude::*;
use vstd::std_specs::iter::IteratorSpec;
use crate::*;
pub use cursor::Cursor;
pub mod cursor {
use vstd::prelude::*;
use vstd::std_specs::iter::IteratorSpec;
use std::str::Chars;
use crate::*;
verus! {
// ---- src/lexer/cursor.rs --------------------------------------------------------------
/*@ type src/lexer/cursor.rs Cursor
@*/

/*@ const src/lexer/cursor.rs EOF_CHAR
@*/

impl<'a> Cursor<'a> {
    #[verifier::prophetic]
    pub closed spec fn rem(&self) -> Seq<char> { self.chars.remaining() }
    #[verifier::prophetic]
    pub closed spec fn inv(&self) -> bool { self.len_remaining >= utf8len(self.chars.remaining()) && self.chars.decrease().is_some() }
    pub closed spec fn fuel(&self) -> nat { self.chars.decrease().unwrap() }
    pub closed spec fn mark(&self) -> nat { self.len_remaining as nat }
    pub closed spec fn prev_spec(&self) -> char { self.prev }
    #[verifier::prophetic]
    pub open spec fn at_start(&self) -> bool { self.inv() && self.mark() == utf8len(self.rem()) }

/*@ fn src/lexer/cursor.rs Cursor::new
tags C03
ret r
rewrite `input.len()` => `str_blen(input)`
spec:
        ensures r.at_start(), r.rem() == input@
@*/

/*@ fn src/lexer/cursor.rs Cursor::prev
tags C03
ret r
spec:
        ensures r == self.prev_spec()
@*/

/*@ fn src/lexer/cursor.rs Cursor::first
tags C03
ret r
spec:
        ensures self.rem().len() > 0 ==> r == self.rem()[0], self.rem().len() == 0 ==> r == EOF_CHAR
@*/

/*@ fn src/lexer/cursor.rs Cursor::is_eof
tags C03
ret r
spec:
        ensures r == (self.rem().len() == 0)
@*/

/*@ fn src/lexer/cursor.rs Cursor::pos_within_token
tags C03
ret r
rewrite `self.chars.as_str().len()` => `str_blen(self.chars.as_str())`
spec:
        requires self.inv(), self.mark() - utf8len(self.rem()) <= u32::MAX
        ensures r == self.mark() - utf8len(self.rem())
@*/

/*@ fn src/lexer/cursor.rs Cursor::reset_pos_within_token
tags C03
rewrite `self.chars.as_str().len()` => `str_blen(self.chars.as_str())`
spec:
        requires old(self).inv()
        ensures final(self).inv(), final(self).rem() == old(self).rem(), final(self).mark() == utf8len(final(self).rem())
@*/

/*@ fn src/lexer/cursor.rs Cursor::bump
tags C03
ret r
spec:
        requires old(self).inv()
        ensures final(self).inv(), final(self).mark() == old(self).mark(),
            r.is_none() ==> old(self).rem().len() == 0 && final(self).rem() == old(self).rem() && final(self).prev_spec() == old(self).prev_spec(),
            r.is_some() ==> final(self).prev_spec() == r.unwrap(),
            suffix(old(self).rem(), final(self).rem()),
            r.is_some() ==> old(self).rem().len() > 0 && r.unwrap() == old(self).rem()[0] && final(self).rem() == old(self).rem().drop_first() && final(self).fuel() < old(self).fuel(),
enter:
        proof { assert(self.rem().skip(0) =~= self.rem()); assert(self.rem().len() > 0 ==> self.rem().skip(1) =~= self.rem().drop_first()); }
@*/

/*@ fn src/lexer/cursor.rs Cursor::eat_while
tags C03 C17
spec:
        requires old(self).inv(), forall|c: char| #[trigger] predicate.requires((c,)),
        ensures final(self).inv(), final(self).mark() == old(self).mark(),
            suffix(old(self).rem(), final(self).rem()),
            final(self).rem().len() <= old(self).rem().len(),
            // every character eaten satisfies the predicate; the next one (if any) does not
            forall|i: int| 0 <= i < old(self).rem().len() - final(self).rem().len() ==> predicate.ensures((#[trigger] old(self).rem()[i],), true),
            final(self).rem().len() > 0 ==> predicate.ensures((final(self).rem()[0],), false),
            final(self).rem().len() == old(self).rem().len() ==> final(self).prev_spec() == old(self).prev_spec(),
enter:
        proof { assert(self.rem().skip(0) =~= self.rem()); }
        let ghost p0 = predicate;
loop 0:
            invariant
                self.inv(), self.mark() == old(self).mark(),
                forall|c: char| #[trigger] predicate.requires((c,)),
                exists|k: int| 0 <= k <= old(self).rem().len() && self.rem() == old(self).rem().skip(k),
                self.rem().len() <= old(self).rem().len(), predicate == p0,
                forall|i: int| 0 <= i < old(self).rem().len() - self.rem().len() ==> predicate.ensures((#[trigger] old(self).rem()[i],), true),
                self.rem().len() == old(self).rem().len() ==> self.prev_spec() == old(self).prev_spec(),
            decreases self.fuel()
before `self.bump();`:
            let ghost pre = self.rem();
            let ghost k0 = choose|k: int| 0 <= k <= old(self).rem().len() && self.rem() == old(self).rem().skip(k);
after `self.bump();`:
            proof {
                assert(self.rem() == pre.drop_first());
                assert(pre.drop_first() =~= old(self).rem().skip(k0 + 1));
                assert(pre.len() == old(self).rem().len() - k0);
                assert(old(self).rem()[k0] == pre[0]);
                assert(old(self).rem().len() - self.rem().len() == k0 + 1);
            }
@*/
}

} // verus!
} // mod cursor
verus! {
// ---- TRUSTED contracts on dependencies (finl_unicode, core::char) -----------------------
pub uninterp spec fn sep_space_spec(c: char) -> bool;
pub uninterp spec fn punct_spec(c: char) -> bool;
// finl_unicode::categories::CharacterCategories: total, pure, otherwise unspecified
pub trait CharacterCategories: Sized {
    spec fn sep_sp(self) -> bool;
    spec fn punct(self) -> bool;
    fn is_separator_space(self) -> (r: bool) ensures r == self.sep_sp();
    fn is_punctuation(self) -> (r: bool) ensures r == self.punct();
}
impl CharacterCategories for char {
    open spec fn sep_sp(self) -> bool { sep_space_spec(self) }
    open spec fn punct(self) -> bool { punct_spec(self) }
    #[verifier::external_body] fn is_separator_space(self) -> (r: bool) { unimplemented!() }
    #[verifier::external_body] fn is_punctuation(self) -> (r: bool) { unimplemented!() }
}
/// what `char::is_alphabetic` answers (the Unicode Alphabetic property); otherwise unspecified
pub uninterp spec fn letter_spec(c: char) -> bool;
pub assume_specification[ char::is_alphabetic ](c: char) -> (r: bool) ensures r == letter_spec(c);
/// C05: a letter or a digit ("content" in the sense of the property statement)
pub open spec fn alnum(c: char) -> bool { letter_spec(c) || ('0' <= c && c <= '9') }
// (U1) TRUSTED Unicode fact: the general categories are disjoint — a space separator (Zs) or a punctuation character (P*) is
// neither alphabetic nor an ASCII digit; (U2) the ASCII control and symbol characters the lexer treats specially are not alphabetic
pub broadcast axiom fn axiom_unicode_disjoint(c: char)
    requires sep_space_spec(c) || punct_spec(c)
    ensures !#[trigger] alnum(c);
pub broadcast axiom fn axiom_ascii_symbols(c: char)
    requires c == '\t' || c == '\n' || c == '\r' || c == '>' || c == ':' || c == '@' || c == '#' || c == '~' || c == '?' || c == '+' || c == '-'
        || c == '/' || c == '*' || c == '&' || c == '|' || c == '=' || c == '%' || c == '{' || c == '}' || c == '(' || c == ')' || c == '.'
    ensures !#[trigger] alnum(c);
/// C05: token kinds that cannot hold a letter or a digit (everything but Word, Int, ZeroInt, Escaped and the two comments)
pub open spec fn blank_kind(k: TokenKind) -> bool {
    is_one_char_kind(k) || k == TokenKind::MetadataStart || k == TokenKind::Newline || k == TokenKind::Whitespace
        || k == TokenKind::Punctuation || k == TokenKind::Eof
}
pub assume_specification[ char::is_ascii_digit ](c: &char) -> (r: bool) ensures r == ('0' <= *c && *c <= '9');

// ---- src/lexer/mod.rs -----------------------------------------------------------------
/*@ type src/lexer/mod.rs Token
@*/

impl Token {
/*@ fn src/lexer/mod.rs Token::new
tags C03
ret r
spec:
        ensures r.kind == kind, r.len == len
@*/
}

/*@ type src/lexer/mod.rs TokenKind
derive Debug, Clone, Copy, PartialEq, Eq, Structural
@*/

pub open spec fn ws_spec(c: char) -> bool { sep_space_spec(c) || c == '\t' }

/*@ fn src/lexer/mod.rs is_whitespace
tags C03
ret r
spec:
    ensures r == ws_spec(c)
@*/

/*@ fn src/lexer/mod.rs is_word_char
tags C03
@*/

/// C17/C04: what the characters `e` of one token look like, per kind
pub open spec fn one_char_kind(k: TokenKind, c: char) -> bool {
    match k {
        TokenKind::TextStep => c == '>', TokenKind::Colon => c == ':', TokenKind::At => c == '@', TokenKind::Hash => c == '#',
        TokenKind::Tilde => c == '~', TokenKind::Question => c == '?', TokenKind::Plus => c == '+', TokenKind::Minus => c == '-',
        TokenKind::Slash => c == '/', TokenKind::Star => c == '*', TokenKind::And => c == '&', TokenKind::Or => c == '|',
        TokenKind::Eq => c == '=', TokenKind::Percent => c == '%', TokenKind::OpenBrace => c == '{', TokenKind::CloseBrace => c == '}',
        TokenKind::OpenParen => c == '(', TokenKind::CloseParen => c == ')', TokenKind::Dot => c == '.',
        _ => false,
    }
}
pub open spec fn is_one_char_kind(k: TokenKind) -> bool {
    k == TokenKind::TextStep || k == TokenKind::Colon || k == TokenKind::At || k == TokenKind::Hash || k == TokenKind::Tilde || k == TokenKind::Question
    || k == TokenKind::Plus || k == TokenKind::Minus || k == TokenKind::Slash || k == TokenKind::Star || k == TokenKind::And || k == TokenKind::Or
    || k == TokenKind::Eq || k == TokenKind::Percent || k == TokenKind::OpenBrace || k == TokenKind::CloseBrace || k == TokenKind::OpenParen
    || k == TokenKind::CloseParen || k == TokenKind::Dot
}
/// the characters `c` of a block comment starting at offset `from` (0 for the whole token `[- .. -]`, 1 after the `[`):
/// it ends at the FIRST `-]` after the opening `[-`, or runs to the end of the input
pub open spec fn bc_closed(c: Seq<char>, from: int) -> bool { c.len() >= 4 - from && c[c.len() - 2] == '-' && c[c.len() - 1] == ']' }
pub open spec fn bc_ok(c: Seq<char>, from: int, at_eof: bool) -> bool {
    &&& c.len() >= 2 - from && c[1 - from] == '-'
    &&& (bc_closed(c, from) || at_eof)
    &&& forall|i: int| 2 - from <= i && i + 1 < c.len() && !(bc_closed(c, from) && i == c.len() - 2) ==> !(#[trigger] c[i] == '-' && c[i + 1] == ']')
}
pub open spec fn shape(k: TokenKind, e: Seq<char>, rest: Seq<char>) -> bool {
    &&& (is_one_char_kind(k) ==> e.len() == 1 && one_char_kind(k, e[0]))
    &&& (k == TokenKind::MetadataStart ==> e =~= seq!['>', '>'])
    // an escape is a backslash plus at most one character
    &&& (k == TokenKind::Escaped ==> 1 <= e.len() <= 2 && e[0] == '\\' && (e.len() == 1 ==> rest.len() == 0))
    // LF and CRLF are one Newline token covering exactly those characters
    &&& (k == TokenKind::Newline ==> e =~= seq!['\n'] || e =~= seq!['\r', '\n'])
    // a line comment is `--` up to, not including, the end of the line
    &&& (k == TokenKind::LineComment ==> e.len() >= 2 && e[0] == '-' && e[1] == '-' && (forall|i: int| 2 <= i < e.len() ==> #[trigger] e[i] != '\n')
            && (rest.len() > 0 ==> rest[0] == '\n'))
    &&& (k == TokenKind::Punctuation ==> e.len() == 1 && punct_spec(e[0]))
    &&& (k == TokenKind::Whitespace ==> forall|i: int| 0 <= i < e.len() ==> ws_spec(#[trigger] e[i]))
    // a block comment ends at the first `-]`
    &&& (k == TokenKind::BlockComment ==> e[0] == '[' && bc_ok(e, 0, rest.len() == 0))
}
impl Cursor<'_> {
/*@ fn src/lexer/mod.rs Cursor::advance_token
tags C03 C04 C05 C17
ret token
spec:
        requires old(self).at_start(), utf8len(old(self).rem()) <= u32::MAX,
        ensures final(self).at_start(), suffix(old(self).rem(), final(self).rem()),
            final(self).rem().len() <= old(self).rem().len(),
            shape(token.kind, eaten(old(self).rem(), final(self).rem()), final(self).rem()),     // [C17] [C04] [C05]
            // [C05] every letter and digit of the input lies in a Word, Int, ZeroInt or Escaped token, or in a comment
            blank_kind(token.kind) ==> forall|i: int| 0 <= i < eaten(old(self).rem(), final(self).rem()).len() ==> !alnum(#[trigger] eaten(old(self).rem(), final(self).rem())[i]),     // [C05]
            token.len == utf8len(old(self).rem()) - utf8len(final(self).rem()),   // [C04] [C05]
            (token.kind == TokenKind::Eof) == (old(self).rem().len() == 0),
            old(self).rem().len() > 0 ==> token.len >= 1,                          // [C03] [C04]
            old(self).rem().len() == 0 ==> final(self).rem() == old(self).rem() && token.len == 0,
enter:
        broadcast use {lemma_suffix_trans_b, lemma_suffix_len};
before `let token_kind = match current {`:
        let ghost r1 = self.rem();
        proof { assert(r1 == old(self).rem().drop_first()); assert(old(self).rem()[0] == current); }
before `let token = Token::new(token_kind, self.pos_within_token());`:
        proof {
            let o = old(self).rem(); let f = self.rem();
            assert(r1.skip(0) =~= r1);
            assert(suffix(r1, f));
            let k1 = choose|k: int| 0 <= k <= r1.len() && f == r1.skip(k);
            assert(f.len() == r1.len() - k1);
            assert(o.len() - f.len() == k1 + 1);
            let e = eaten(o, f);
            assert(e.len() == k1 + 1);
            assert(e[0] == current);
            assert forall|i: int| 1 <= i < e.len() implies e[i] == r1[i - 1] by {}
            if token_kind == TokenKind::LineComment {
                assert(e[1] == r1[0]);
                assert forall|i: int| 2 <= i < e.len() implies #[trigger] e[i] != '\n' by { assert(e[i] == r1[i - 1]); }
            }
            if token_kind == TokenKind::MetadataStart { assert(e =~= seq!['>', '>']); }
            if token_kind == TokenKind::Newline { assert(e =~= seq!['\n'] || e =~= seq!['\r', '\n']); }   // [C17] LF and CRLF are exactly one Newline token
            if token_kind == TokenKind::Whitespace {
                assert forall|i: int| 0 <= i < e.len() implies ws_spec(#[trigger] e[i]) by { if i >= 1 { assert(e[i] == r1[i - 1]); } }
            }
            assert(shape(token_kind, e, f));   // [C17] [C04] [C05]
            if blank_kind(token_kind) {
                broadcast use {axiom_unicode_disjoint, axiom_ascii_symbols};
                assert forall|i: int| 0 <= i < e.len() implies !alnum(#[trigger] e[i]) by {
                    if token_kind == TokenKind::Whitespace { assert(ws_spec(e[i])); }
                    if token_kind == TokenKind::Newline || token_kind == TokenKind::MetadataStart { assert(e[i] == '\n' || e[i] == '\r' || e[i] == '>'); }
                }
            }
        }
@*/

/*@ fn src/lexer/mod.rs Cursor::line_comment
tags C03
ret r
spec:
        requires old(self).inv(), old(self).mark() <= u32::MAX,
            old(self).prev_spec() == '-', old(self).rem().len() > 0, old(self).rem()[0] == '-',
        ensures final(self).inv(), final(self).mark() == old(self).mark(), suffix(old(self).rem(), final(self).rem()), r == TokenKind::LineComment,
            final(self).rem().len() <= old(self).rem().len(), old(self).rem().len() - final(self).rem().len() >= 1,
            forall|i: int| 0 <= i < old(self).rem().len() - final(self).rem().len() ==> #[trigger] old(self).rem()[i] != '\n',
            final(self).rem().len() > 0 ==> final(self).rem()[0] == '\n',
closure @ `|c| c != '\n'` `char` ret `b: bool`:
        ensures b == (c != '\n')
@*/

/*@ fn src/lexer/mod.rs Cursor::block_comment
tags C03 C17 C05
ret r
spec:
        requires old(self).inv(), old(self).mark() <= u32::MAX,
            old(self).prev_spec() == '[', old(self).rem().len() > 0, old(self).rem()[0] == '-',
        ensures final(self).inv(), final(self).mark() == old(self).mark(), suffix(old(self).rem(), final(self).rem()), r == TokenKind::BlockComment,
            final(self).rem().len() <= old(self).rem().len(),
            bc_ok(eaten(old(self).rem(), final(self).rem()), 1, final(self).rem().len() == 0),    // [C17] [C05]
before `while let Some(c) = self.bump()`:
        broadcast use lemma_suffix_trans_b;
        let ghost o = old(self).rem();
        proof { assert(self.rem() == o.drop_first()); assert(o.skip(1) =~= o.drop_first()); }
loop 0:
            invariant_except_break
                forall|i: int| 1 <= i && i + 1 < o.len() - self.rem().len() ==> !(#[trigger] o[i] == '-' && o[i + 1] == ']'),     // [C17] [C05] no `-]` inside the comment so far
                o.len() - self.rem().len() >= 2 && o[o.len() - self.rem().len() - 1] == '-' ==> (self.rem().len() == 0 || self.rem()[0] != ']'),    // [C17] [C05]
            invariant self.inv(), self.mark() == old(self).mark(), suffix(old(self).rem(), self.rem()), o == old(self).rem(),
                1 <= o.len() - self.rem().len(), self.rem() == o.skip(o.len() - self.rem().len()), o[0] == '-',
            ensures
                self.rem().len() <= o.len(),
                bc_ok(eaten(o, self.rem()), 1, self.rem().len() == 0),     // [C17] [C05] the comment ends at the first `-]` or at the end of input (nothing after it is swallowed)
            decreases self.fuel()
loopbody 0:
            broadcast use lemma_suffix_trans_b;
            let ghost n = o.len() - self.rem().len();
            proof { assert(o.skip(n - 1).drop_first() =~= o.skip(n)); assert(o[n - 1] == c); }
@*/

/*@ fn src/lexer/mod.rs Cursor::word
tags C03
ret r
spec:
        requires old(self).inv(), old(self).mark() <= u32::MAX,
            old(self).mark() - utf8len(old(self).rem()) > 0,
        ensures final(self).inv(), final(self).mark() == old(self).mark(), suffix(old(self).rem(), final(self).rem()), r == TokenKind::Word,
@*/

/*@ fn src/lexer/mod.rs Cursor::whitespace
tags C03
ret r
spec:
        requires old(self).inv(), old(self).mark() <= u32::MAX,
            ws_spec(old(self).prev_spec()),
        ensures final(self).inv(), final(self).mark() == old(self).mark(), suffix(old(self).rem(), final(self).rem()), r == TokenKind::Whitespace,
            final(self).rem().len() <= old(self).rem().len(),
            forall|i: int| 0 <= i < old(self).rem().len() - final(self).rem().len() ==> ws_spec(#[trigger] old(self).rem()[i]),     // [C05] [C17]
@*/

/*@ fn src/lexer/mod.rs Cursor::number
tags C03
ret r
spec:
        requires old(self).inv(), old(self).mark() <= u32::MAX,
            '0' <= old(self).prev_spec() && old(self).prev_spec() <= '9',
        ensures final(self).inv(), final(self).mark() == old(self).mark(), suffix(old(self).rem(), final(self).rem()), r == TokenKind::Int || r == TokenKind::ZeroInt,
@*/
}

} // verus!
} // mod lexer

pub mod span {
use vstd::prelude::*;
verus! {
// ---- src/span.rs (constructor only; the rest is in unit `parser`) ---------------------------
/*@ type src/span.rs Span
derive Clone, Copy, PartialEq, Eq
@*/
impl Span {
    pub closed spec fn s(&self) -> int { self.start as int }
    pub closed spec fn e(&self) -> int { self.end as int }
/*@ fn src/span.rs Span::new
tags C04
ret r
spec:
        requires start <= end    // [C04]
        ensures r.s() == start, r.e() == end
@*/
}

} // verus!
// X2: hand-written Debug impl, compiled but not verified
/*@ impl src/span.rs <Debug~for~Span>
@*/
} // mod span

pub mod parser { pub mod token_stream {
use vstd::prelude::*;
use crate::*;
pub use crate::lexer::TokenKind;
use crate::{lexer::Cursor, span::Span};
verus! {
// ---- src/parser/token_stream.rs -------------------------------------------------------
/*@ type src/parser/token_stream.rs TokenStream
@*/

/*@ type src/parser/token_stream.rs Token
@*/

impl<'i> TokenStream<'i> {
    #[verifier::prophetic]
    pub closed spec fn total(&self) -> int { self.consumed + utf8len(self.cursor.rem()) }
    #[verifier::prophetic]
    pub closed spec fn inv(&self) -> bool { self.cursor.at_start() && self.total() <= usize::MAX && utf8len(self.cursor.rem()) <= u32::MAX }
    pub closed spec fn pos(&self) -> int { self.consumed as int }
    /// the stream is lexing `s` (whose first byte has offset `off` in the document): what is left is a suffix of s's
    /// chars and `consumed` is `off` plus the UTF-8 length of the chars already taken
    #[verifier::prophetic]
    pub closed spec fn on(&self, s: &str, off: int) -> bool {
        exists|k: int| 0 <= k <= s@.len() && self.cursor.rem() == #[trigger] s@.skip(k) && self.consumed_is(s, off, k)
    }
    pub closed spec fn consumed_is(&self, s: &str, off: int, k: int) -> bool { self.consumed == off + utf8len(s@.subrange(0, k)) }

/*@ fn src/parser/token_stream.rs TokenStream::new
tags C03 C04
ret r
spec:
        requires utf8len(input@) <= u32::MAX
        ensures r.inv(), r.pos() == 0, r.total() == utf8len(input@), r.on(input, 0)
enter:
        proof { assert(input@.skip(0) =~= input@); assert(input@.subrange(0, 0) =~= Seq::<char>::empty()); }
@*/

/*@ fn src/parser/token_stream.rs TokenStream::offset
tags C03 C04
spec:
        requires old(self).inv(), old(self).total() + offset <= usize::MAX
        ensures final(self).inv(), final(self).pos() == old(self).pos() + offset, final(self).total() == old(self).total() + offset,
            forall|s: &str, off: int| #[trigger] old(self).on(s, off) ==> final(self).on(s, off + offset),
after `self.consumed += offset;`:
        proof {
            assert forall|s: &str, off: int| #[trigger] old(self).on(s, off) implies self.on(s, off + offset) by {
                let k = choose|k: int| 0 <= k <= s@.len() && old(self).cursor.rem() == #[trigger] s@.skip(k) && old(self).consumed_is(s, off, k);
                assert(self.consumed_is(s, off + offset, k));
            }
        }
@*/

    // X2: `impl Iterator for TokenStream<'_> { fn next }` checked as an inherent method
/*@ fn src/parser/token_stream.rs <Iterator~for~TokenStream>::next
tags C03 C04 C05
ret r
rewrite `Self::Item` => `Token`
spec:
        requires old(self).inv()
        ensures final(self).inv(), final(self).total() == old(self).total(),
            r.is_some() ==> r.unwrap().span.s() == old(self).pos(),      // [C04] [C05]
            r.is_some() ==> r.unwrap().span.e() == final(self).pos(),    // [C04] [C05]
            r.is_some() ==> r.unwrap().span.s() < r.unwrap().span.e(),   // [C04]
            r.is_some() ==> r.unwrap().span.e() <= old(self).total(),    // [C04]
            r.is_none() ==> final(self).pos() == old(self).pos(),
            r.is_none() ==> old(self).pos() == old(self).total(),        // [C05]
            // [C04] when the stream lexes `s` placed at document offset `off`, both ends of every token are byte offsets of `s`
            //       on char boundaries, and an escape token is a one-byte backslash plus at most one character
            forall|s: &str, off: int| #[trigger] old(self).on(s, off) ==> final(self).on(s, off)
                && (r.is_some() ==> bnd(s, r.unwrap().span.s() - off) && bnd(s, r.unwrap().span.e() - off)
                    && (r.unwrap().kind == TokenKind::Escaped ==> bnd(s, r.unwrap().span.s() + 1 - off) && r.unwrap().span.s() + 1 <= r.unwrap().span.e() <= r.unwrap().span.s() + 5)),      // [C04]
enter:
        broadcast use lemma_suffix_len;
after `let t = self.cursor.advance_token();`:
        proof { if t.kind == TokenKind::Eof { assert(utf8len(old(self).cursor.rem()) == 0); } }
after `self.consumed += t.len as usize;`:
        proof {
            assert(self.cursor.at_start());
            assert(t.len as int == utf8len(old(self).cursor.rem()) - utf8len(self.cursor.rem()));
            assert(self.consumed as int == old(self).consumed + t.len);
            assert(self.total() == old(self).total());
            if t.kind == TokenKind::Eof { assert(old(self).cursor.rem().len() == 0); assert(self.cursor.rem().len() == 0); assert(t.len == 0); }
            else { assert(old(self).cursor.rem().len() > 0); assert(t.len >= 1); }
            assert forall|s: &str, off: int| #[trigger] old(self).on(s, off) implies self.on(s, off)
                && bnd(s, start - off) && bnd(s, self.consumed - off)
                && (t.kind == TokenKind::Escaped ==> bnd(s, start + 1 - off) && start + 1 <= self.consumed <= start + 5) by {
                let k0 = choose|k: int| 0 <= k <= s@.len() && old(self).cursor.rem() == #[trigger] s@.skip(k) && old(self).consumed_is(s, off, k);
                let r0 = old(self).cursor.rem(); let r1 = self.cursor.rem();
                let n = r0.len() - r1.len();
                let kk = choose|kk: int| 0 <= kk <= r0.len() && r1 == r0.skip(kk);
                assert(kk == n);
                assert(s@.skip(k0).skip(n) =~= s@.skip(k0 + n));
                lemma_utf8len_split(s@, k0); lemma_utf8len_split(s@, k0 + n);
                assert(self.consumed_is(s, off, k0 + n));
                axiom_prefix_boundary(s, k0); axiom_prefix_boundary(s, k0 + n);
                if t.kind == TokenKind::Escaped {
                    let e = eaten(r0, r1);
                    assert(e[0] == r0[0]); assert(r0[0] == s@[k0]);
                    lemma_utf8len_split(s@, k0 + 1);
                    axiom_prefix_boundary(s, k0 + 1);
                    lemma_utf8len_split(s@.skip(k0), 1);
                    assert(s@.skip(k0).subrange(0, 1) =~= seq![s@[k0]]);
                    assert(utf8len(seq![s@[k0]]) == char_len(s@[k0])) by { assert(seq![s@[k0]].drop_first() =~= Seq::<char>::empty()); }
                    assert(s@.skip(k0).skip(1) =~= s@.skip(k0 + 1));
                    if n == 2 {
                        lemma_utf8len_split(s@.skip(k0 + 1), 1);
                        assert(s@.skip(k0 + 1).subrange(0, 1) =~= seq![s@[k0 + 1]]);
                        assert(utf8len(seq![s@[k0 + 1]]) == char_len(s@[k0 + 1])) by { assert(seq![s@[k0 + 1]].drop_first() =~= Seq::<char>::empty()); }
                        assert(s@.skip(k0 + 1).skip(1) =~= s@.skip(k0 + 2));
                    }
                }
            }
        }
@*/
}

} // verus!
} } // mod parser::token_stream
fn main() {}
