// UNIT parser — src/span.rs, src/text.rs, src/parser/{token_stream(Token),block_parser,mod,section,metadata,text_block,step}.rs
// Every executable function below is extracted from /repo at run time (see tools/vgen.py).
#![feature(pattern)]
#![allow(unused_imports, unused_macros, dead_code)]
#![verifier::allow(undeclared_external_trait)]
#![verifier::allow(autoderive_clone_without_spec)]
use vstd::prelude::*;
use vstd::string::StringSliceAdditionalSpecFns;

// ---- X3 macro shadows -------------------------------------------------------------------
// comparison assertions: same truth condition, message formatting dropped
macro_rules! assert_eq { ($a:expr, $b:expr $(, $($rest:tt)*)?) => { assert!($a == $b) }; }
macro_rules! assert_ne { ($a:expr, $b:expr $(, $($rest:tt)*)?) => { assert!($a != $b) }; }
macro_rules! debug_assert_eq { ($a:expr, $b:expr $(, $($rest:tt)*)?) => { debug_assert!($a == $b) }; }
// repository macro (block_parser.rs): the run-time adjacency check becomes a static obligation
macro_rules! debug_assert_adjacent { ($s:expr) => { crate::check_adjacent($s) }; }
// repository macro `label!` (src/error.rs): builds (span.to_owned().into(), message.into()); shadowed by two
// trusted constructors that return the same pair (see mod error)
macro_rules! label {
    ($span:expr $(,)?) => { crate::error::mk_label($span) };
    ($span:expr, $message:expr $(,)?) => { crate::error::mk_label_msg($span, $message) };
    ($span:expr, $fmt:literal, $($arg:expr),+) => { crate::error::mk_label_msg($span, format!($fmt, $($arg),+)) };
}
// format!: the arguments are evaluated, the resulting String is unspecified
macro_rules! format { ($fmt:literal $(, $arg:expr)* $(,)?) => { { $( let _ = &$arg; )* crate::error::fmt_opaque() } }; }

/*@ macro src/lexer/mod.rs T
@*/

verus! {

// ---- TRUSTED string model ---------------------------------------------------------------
// (A1) a str never holds more than usize::MAX bytes
pub broadcast axiom fn axiom_str_len_bound(s: &str) ensures #[trigger] s.spec_bytes().len() <= usize::MAX;
// (A4) a slice never holds more than usize::MAX elements
pub broadcast axiom fn axiom_slice_len_bound<T>(s: &[T]) ensures #[trigger] s@.len() <= usize::MAX;
// (A2) `&s[range]` is `SliceIndex::index(range, s)` (vstd specifies the latter: char-boundary
//      precondition, result bytes = subrange); vstd has no specification for `<str as Index>::index`
pub assume_specification<I>[ <str as core::ops::Index<I>>::index ](s: &str, index: I) -> (output: &<I as core::slice::SliceIndex<str>>::Output) where I: core::slice::SliceIndex<str>
    ensures call_ensures(<I as core::slice::SliceIndex<str>>::index, (index, s), output);

// (A6) bool::then_some(b, x) is `if b { Some(x) } else { None }` (no vstd specification)
pub assume_specification<T>[ bool::then_some ](b: bool, x: T) -> (r: Option<T>)
    ensures r == (if b { Some(x) } else { None::<T> });
// (A7) Option::flatten (no vstd specification)
pub assume_specification<T>[ Option::<Option<T>>::flatten ](o: Option<Option<T>>) -> (r: Option<T>)
    ensures r == (match o { Some(x) => x, None => None::<T> });
// (A8) Cow<str>::into_owned: total, result unspecified
pub assume_specification<'a, B: ?Sized + std::borrow::ToOwned>[ std::borrow::Cow::<'a, B>::into_owned ](c: std::borrow::Cow<'a, B>) -> (r: <B as std::borrow::ToOwned>::Owned);
// (A9) Option<(A, B)>::unzip (no vstd specification)
pub assume_specification<A, B>[ Option::<(A, B)>::unzip ](o: Option<(A, B)>) -> (r: (Option<A>, Option<B>))
    ensures r == (match o { Some((a, b)) => (Some(a), Some(b)), None => (None::<A>, None::<B>) });
// (A3) std::slice::from_ref views one element as a one-element slice
pub assume_specification<T>[ core::slice::from_ref ](x: &T) -> (r: &[T]) ensures r@ == seq![*x];

// (A5) total, panic-free std string functions whose RESULT IS LEFT UNSPECIFIED: code that starts using them is
//      still accepted by the verifier, and any contract that depends on their result then fails instead of
//      the whole unit being rejected as "unsupported"
/// "s consists of (Unicode) whitespace only" — DEFINED by str::trim: the one fact assumed about trim is that its result
/// is empty exactly for such strings
pub uninterp spec fn blank_str(s: &str) -> bool;
pub assume_specification<'a>[ str::trim ](s: &'a str) -> (r: &'a str)
    ensures (r.spec_bytes().len() == 0) == blank_str(s);
pub assume_specification<'a>[ str::trim_start ](s: &'a str) -> (r: &'a str);
pub assume_specification<'a>[ str::trim_end ](s: &'a str) -> (r: &'a str);
pub assume_specification<'a, P: core::str::pattern::Pattern>[ str::trim_start_matches::<P> ](s: &'a str, p: P) -> (r: &'a str);
pub assume_specification<'a, P: core::str::pattern::Pattern>[ str::starts_with::<P> ](s: &'a str, p: P) -> (r: bool);
pub assume_specification<'a, P: core::str::pattern::Pattern>[ str::ends_with::<P> ](s: &'a str, p: P) -> (r: bool) where for<'b> <P as core::str::pattern::Pattern>::Searcher<'b>: core::str::pattern::ReverseSearcher<'b>;
pub assume_specification<'a, P: core::str::pattern::Pattern>[ str::contains::<P> ](s: &'a str, p: P) -> (r: bool);
pub assume_specification<'a, P: core::str::pattern::Pattern>[ str::strip_prefix::<P> ](s: &'a str, p: P) -> (r: Option<&'a str>);
// the character / byte iterators of a str and their `count`: total, result unspecified (a length computed in characters
// instead of bytes then fails the contracts that speak about byte offsets)
pub assume_specification<'a>[ <std::str::Chars<'a> as Iterator>::count ](it: std::str::Chars<'a>) -> (r: usize);

/// bytes of the input of the parse in progress (uninterpreted: proofs hold for every input)
pub uninterp spec fn the_input() -> Seq<u8>;
pub open spec fn blen(s: &str) -> int { s.spec_bytes().len() as int }
/// `i` is an offset inside the input that lies on a char boundary
pub open spec fn gbnd(i: int) -> bool { 0 <= i <= the_input().len() && vstd::utf8::is_char_boundary(the_input(), i) }

} // verus!

pub mod span {
use vstd::prelude::*;
use crate::*;
use std::ops::Range;
verus! {
/*@ type src/span.rs Span
derive Clone, Copy, PartialEq, Eq
@*/
impl Span {
    pub closed spec fn s(&self) -> int { self.start as int }
    pub closed spec fn e(&self) -> int { self.end as int }
    /// C04: a reportable location: start <= end, in bounds, on char boundaries
    pub open spec fn ok(&self) -> bool { self.s() <= self.e() && gbnd(self.s()) && gbnd(self.e()) }

/*@ fn src/span.rs Span::new
tags C04
ret r
spec:
        requires start <= end    // [C04]
        ensures r.s() == start, r.e() == end
@*/
/*@ fn src/span.rs Span::pos
tags C04
ret r
spec:
        ensures r.s() == pos, r.e() == pos
@*/
/*@ fn src/span.rs Span::start
tags C04
ret r
spec:
        ensures r == self.s()
@*/
/*@ fn src/span.rs Span::end
tags C04
ret r
spec:
        ensures r == self.e()
@*/
/*@ fn src/span.rs Span::range
tags C04
ret r
spec:
        ensures r.start == self.s(), r.end == self.e()
@*/
/*@ fn src/span.rs Span::len
tags C03 C04
ret r
spec:
        requires self.s() <= self.e()
        ensures r == self.e() - self.s()
@*/
/*@ fn src/span.rs Span::is_empty
tags C04
ret r
spec:
        ensures r == (self.s() == self.e())
@*/
}
} // verus!
/*@ impl src/span.rs <Debug~for~Span>
@*/
} // mod span

pub mod lexer {
use vstd::prelude::*;
verus! {
/*@ type src/lexer/mod.rs TokenKind
derive Debug, Clone, Copy, PartialEq, Eq, Structural
@*/
} // verus!
}

pub mod parser {
pub mod token_stream {
use vstd::prelude::*;
use crate::*;
pub use crate::lexer::TokenKind;
use crate::span::Span;
verus! {
/*@ type src/parser/token_stream.rs Token
derive Debug, Clone, Copy, PartialEq, Eq
@*/
impl Token {
/*@ fn src/parser/token_stream.rs Token::len
tags C03
ret r
spec:
        requires self.span.s() <= self.span.e()
        ensures r == self.span.e() - self.span.s()
@*/
}
} // verus!
} // mod token_stream
} // mod parser

use crate::parser::token_stream::Token;
use crate::lexer::TokenKind;
use crate::span::Span;

verus! {
// ---- the lexer's contract as seen by the parser -----------------------------------------
#[verifier::opaque]
pub open spec fn adjacent(ts: Seq<Token>) -> bool {
    forall|i: int, j: int| 0 <= i && j == i + 1 && j < ts.len() ==> (#[trigger] ts[i]).span.e() == (#[trigger] ts[j]).span.s()
}
/// what every token slice handed to a BlockParser satisfies (established by unit `lexer`:
/// TokenStream::next tiles the input; the shape facts are those of Cursor::advance_token)
pub open spec fn toks_ok(ts: Seq<Token>) -> bool {
    &&& adjacent(ts)
    &&& forall|i: int| 0 <= i < ts.len() ==> (#[trigger] ts[i]).span.s() < ts[i].span.e() && gbnd(ts[i].span.s()) && gbnd(ts[i].span.e())
    &&& forall|i: int| 0 <= i < ts.len() && (#[trigger] ts[i]).kind == TokenKind::Escaped ==> gbnd(ts[i].span.s() + 1) && ts[i].span.s() + 1 <= ts[i].span.e() <= ts[i].span.s() + 5
}
pub proof fn lemma_mono(ts: Seq<Token>, i: int, j: int)
    requires toks_ok(ts), 0 <= i <= j < ts.len()
    ensures ts[i].span.s() <= ts[j].span.s(), ts[i].span.e() <= ts[j].span.e()
    decreases j - i
{
    reveal(adjacent);
    if i < j {
        lemma_mono(ts, i, j - 1);
        assert(ts[j - 1].span.e() == ts[j].span.s());
    }
}
pub proof fn lemma_sub_ok(ts: Seq<Token>, a: int, b: int)
    requires toks_ok(ts), 0 <= a <= b <= ts.len()
    ensures toks_ok(ts.subrange(a, b))
{
    reveal(adjacent);
    let sub = ts.subrange(a, b);
    assert forall|i: int, j: int| 0 <= i && j == i + 1 && j < sub.len() implies (#[trigger] sub[i]).span.e() == (#[trigger] sub[j]).span.s() by {
        assert(sub[i] == ts[a + i]); assert(sub[j] == ts[a + j]);
    }
}
/// the per-token facts of the (opaque) lexer contract
pub proof fn lemma_tok(ts: Seq<Token>, i: int)
    requires toks_ok(ts), 0 <= i < ts.len()
    ensures ts[i].span.s() < ts[i].span.e(), gbnd(ts[i].span.s()), gbnd(ts[i].span.e()),
        ts[i].kind == TokenKind::Escaped ==> gbnd(ts[i].span.s() + 1) && ts[i].span.s() + 1 <= ts[i].span.e() <= ts[i].span.s() + 5,
        i + 1 < ts.len() ==> ts[i].span.e() == ts[i + 1].span.s(),
        adjacent(ts),
{ reveal(adjacent); }
/// X3: stands for the repository's debug_assert_adjacent! (a `windows(2).all(..)` run-time check)
#[verifier::external_body]
pub fn check_adjacent(ts: &[Token]) requires adjacent(ts@) /* [panic] */ {}
/// C05: token kinds that can hold a letter or a digit outside comments (proved in unit `lexer`: a token of any other kind,
/// comments aside, contains no letter and no digit — `blank_kind` post of Cursor::advance_token, over two trusted Unicode facts)
pub open spec fn content_kind(k: TokenKind) -> bool { k == TokenKind::Word || k == TokenKind::Int || k == TokenKind::ZeroInt || k == TokenKind::Escaped }
/// first byte of a token's content (an escaped token's content starts after the backslash)
pub open spec fn cs(t: Token) -> int { if t.kind == TokenKind::Escaped { t.span.s() + 1 } else { t.span.s() } }
pub proof fn lemma_off_mono(ts: Seq<Token>, c1: int, c2: int)
    requires toks_ok(ts), 0 <= c1 <= c2 <= ts.len(), ts.len() > 0
    ensures cur_off(ts, c1) <= cur_off(ts, c2), gbnd(cur_off(ts, c1)), gbnd(cur_off(ts, c2)),
        c1 < c2 ==> cur_off(ts, c1) <= ts[c1].span.s() && ts[c2 - 1].span.e() == cur_off(ts, c2),
        c1 < ts.len() ==> cur_off(ts, c1) == ts[c1].span.s(),
{
    reveal(adjacent);
    if c1 > 0 && c1 < ts.len() { assert(ts[c1 - 1].span.e() == ts[c1].span.s()); }
    if c2 > 0 && c1 > 0 { lemma_mono(ts, c1 - 1, c2 - 1); }
    if c2 > 0 { lemma_mono(ts, 0, c2 - 1); }
}
/// end offset of everything before token `index`
pub open spec fn cur_off(ts: Seq<Token>, index: int) -> int { if index == 0 { ts[0].span.s() } else { ts[index - 1].span.e() } }
} // verus!

pub mod text {
use std::borrow::Cow;
use vstd::prelude::*;
use vstd::string::StringSliceAdditionalSpecFns;
use crate::*;
use crate::span::Span;
verus! {
/*@ type src/text.rs TextFragment
derive Clone, Copy
@*/
/*@ type src/text.rs TextFragmentKind
derive Clone, Copy, PartialEq, Eq
@*/
impl<'a> TextFragment<'a> {
    pub closed spec fn s(&self) -> int { self.offset as int }
    pub open spec fn e(&self) -> int { self.s() + blen(self.txt()) }
    pub closed spec fn txt(&self) -> &'a str { self.text }
    pub closed spec fn is_soft_break(&self) -> bool { self.kind == TextFragmentKind::SoftBreak }
    /// C04: the fragment's content is the input slice at its span
    pub open spec fn faithful(&self) -> bool {
        gbnd(self.s()) && gbnd(self.e()) && self.txt().spec_bytes() == the_input().subrange(self.s(), self.e())
    }

/*@ fn src/text.rs TextFragment::new
tags C04
ret r
spec:
        ensures r.s() == offset, r.txt() == text, !r.is_soft_break()
@*/
/*@ fn src/text.rs TextFragment::soft_break
tags C04
ret r
spec:
        ensures r.s() == offset, r.txt() == text, r.is_soft_break()
@*/
/*@ fn src/text.rs TextFragment::text
tags C04
ret r
spec:
        ensures r == self.txt()
@*/
/*@ fn src/text.rs TextFragment::span
tags C03 C04
ret r
spec:
        requires self.e() <= usize::MAX
        ensures r.s() == self.s(), r.e() == self.e()
@*/
/*@ fn src/text.rs TextFragment::start
tags C04
ret r
spec:
        ensures r == self.s()
@*/
/*@ fn src/text.rs TextFragment::end
tags C03 C04
ret r
spec:
        requires self.e() <= usize::MAX
        ensures r == self.e()     // [C04] the end of a fragment is its offset plus its length in BYTES
enter:
        broadcast use axiom_str_len_bound;
@*/
}

/*@ type src/text.rs TextData
derive Clone
@*/
impl<'a> TextData<'a> {
    spec fn frags(&self) -> Seq<TextFragment<'a>> {
        match self {
            TextData::Empty { .. } => seq![],
            TextData::Single { fragment } => seq![*fragment],
            TextData::Fragmented { fragments } => fragments@,
        }
    }
    spec fn wf(&self) -> bool {
        &&& (self is Fragmented ==> self.frags().len() >= 2)
        &&& forall|i: int| 0 <= i < self.frags().len() ==> (#[trigger] self.frags()[i]).e() <= usize::MAX && self.frags()[i].s() < self.frags()[i].e()
        &&& forall|i: int, j: int| 0 <= i < j < self.frags().len() ==> (#[trigger] self.frags()[i]).e() <= (#[trigger] self.frags()[j]).s()
    }
    spec fn start_spec(&self) -> int {
        match self {
            TextData::Empty { offset } => *offset as int,
            _ => self.frags()[0].s(),
        }
    }
    spec fn end_spec(&self) -> int {
        match self {
            TextData::Empty { offset } => *offset as int,
            _ => self.frags().last().e(),
        }
    }

/*@ fn src/text.rs TextData::push
tags C03 C04
spec:
        requires old(self).wf(), old(self).end_spec() <= fragment.s(), fragment.s() < fragment.e() <= usize::MAX
        ensures final(self).wf(), final(self).frags() == old(self).frags().push(fragment)
@*/
/*@ fn src/text.rs TextData::as_slice
tags C04
ret r
spec:
        ensures r@ == self.frags()
@*/
/*@ fn src/text.rs TextData::span
tags C03 C04
ret r
spec:
        requires self.wf()
        ensures r.s() == self.start_spec(), r.e() == self.end_spec(), r.s() <= r.e()    // [C04]
enter:
        proof { if let TextData::Single { fragment } = self { assert(self.frags()[0] == *fragment); } }
@*/
}

/*@ type src/text.rs Text
derive Clone
@*/
impl<'a> Text<'a> {
    pub closed spec fn wf(&self) -> bool { self.data.wf() }
    pub closed spec fn frags(&self) -> Seq<TextFragment<'a>> { self.data.frags() }
    pub closed spec fn start_spec(&self) -> int { self.data.start_spec() }
    pub closed spec fn end_spec(&self) -> int { self.data.end_spec() }
    pub proof fn lemma_span_order(&self)
        requires self.wf()
        ensures self.start_spec() <= self.end_spec()
    {
        if self.frags().len() > 0 {
            let a = self.frags()[0]; let b = self.frags().last();
            assert(a.s() < a.e());
            if self.frags().len() > 1 { assert(a.e() <= b.s()); assert(b.s() < b.e()); }
        }
    }
    /// C04: all fragments are faithful input slices
    pub open spec fn faithful(&self) -> bool { forall|k: int| 0 <= k < self.frags().len() ==> (#[trigger] self.frags()[k]).faithful() }

/*@ fn src/text.rs Text::empty
tags C04
ret r
spec:
        ensures r.wf(), r.frags().len() == 0, r.end_spec() == offset, r.start_spec() == offset
@*/
/*@ fn src/text.rs Text::from_str
tags C03 C04
ret r
spec:
        requires offset + blen(s) <= usize::MAX
        ensures r.wf(), r.start_spec() == offset, r.end_spec() == offset + blen(s),
            blen(s) > 0 ==> r.frags().len() == 1 && r.frags()[0].txt() == s && r.frags()[0].s() == offset,
            blen(s) == 0 ==> r.frags().len() == 0,
@*/
/*@ fn src/text.rs Text::append_fragment
tags C03 C04
spec:
        requires old(self).wf(), old(self).end_spec() <= fragment.s(), fragment.e() <= usize::MAX
        ensures final(self).wf(),
            blen(fragment.txt()) == 0 ==> final(self).frags() == old(self).frags() && final(self).end_spec() == old(self).end_spec() && final(self).start_spec() == old(self).start_spec(),
            blen(fragment.txt()) > 0 ==> final(self).frags() == old(self).frags().push(fragment) && final(self).end_spec() == fragment.e()
                && final(self).start_spec() == (if old(self).frags().len() == 0 { fragment.s() } else { old(self).start_spec() }),
@*/
/*@ fn src/text.rs Text::append_str
tags C03 C04
spec:
        requires old(self).wf(), old(self).end_spec() <= offset, offset + blen(s) <= usize::MAX
        ensures final(self).wf(),
            blen(s) == 0 ==> final(self).frags() == old(self).frags() && final(self).end_spec() == old(self).end_spec() && final(self).start_spec() == old(self).start_spec(),
            blen(s) > 0 ==> final(self).frags().len() == old(self).frags().len() + 1 && final(self).end_spec() == offset + blen(s)
                && final(self).frags().last().txt() == s && final(self).frags().last().s() == offset
                && final(self).frags().drop_last() == old(self).frags()
                && final(self).start_spec() == (if old(self).frags().len() == 0 { offset as int } else { old(self).start_spec() }),
@*/
/*@ fn src/text.rs Text::span
tags C03 C04
ret r
spec:
        requires self.wf()
        ensures r.s() == self.start_spec(), r.e() == self.end_spec(), r.s() <= r.e()    // [C04]
@*/
/*@ fn src/text.rs Text::fragments
tags C04
ret r
spec:
        ensures r@ == self.frags()
@*/
    /// C07: the text is blank: every fragment consists of whitespace only (as str::trim sees it)
    pub open spec fn blank(&self) -> bool { forall|i: int| 0 <= i < self.frags().len() ==> blank_str((#[trigger] self.frags()[i]).txt()) }
/*@ fn src/text.rs Text::is_text_empty
tags C07 C03
ret r
spec:
        ensures r == self.blank()     // [C07] blank means Unicode-blank, fragment by fragment
closure @ `|f| ` `&TextFragment<'a>` ret `b: bool`:
        ensures b == blank_str(f.txt())
@*/
/*@ fn src/text.rs Text::text_trimmed stub
@*/
/*@ fn src/text.rs Text::text_outer_trimmed stub
@*/
}
} // verus!
} // mod text

pub mod located {
use vstd::prelude::*;
use crate::*;
use crate::span::Span;
verus! {
/*@ type src/located.rs Located
derive
@*/
impl<T> Located<T> {
    pub closed spec fn sp(&self) -> Span { self.span }
    pub closed spec fn val(&self) -> T { self.inner }
/*@ fn src/located.rs Located::span
tags C04
ret r
spec:
        ensures r == self.sp()
@*/
/*@ fn src/located.rs Located::value
tags C04
ret r
spec:
        ensures *r == self.val()
@*/
/*@ fn src/located.rs Located::into_inner
tags C04
ret r
spec:
        ensures r == self.val()
@*/
/*@ fn src/located.rs Located::map
tags C04
ret r
spec:
        requires f.requires((self.val(),))
        ensures r.sp() == self.sp(), f.ensures((self.val(),), r.val())
@*/
/*@ fn src/located.rs Located::take_pair
tags C04
ret r
spec:
        ensures r.0 == self.val(), r.1 == self.sp()
@*/
}
// TRUSTED stand-in for `Located::new(inner, span: impl Into<Span>)` (hand-written signature: the extra IntoSpan
// bound lets the contract speak about the converted span): the only argument types used by
// the covered code are Span and Range<usize>; both conversions keep start/end (src/span.rs From impls)
pub trait IntoSpan: Sized { spec fn as_sp(self) -> (int, int); }
impl IntoSpan for Span { open spec fn as_sp(self) -> (int, int) { (self.s(), self.e()) } }
impl IntoSpan for core::ops::Range<usize> { open spec fn as_sp(self) -> (int, int) { (self.start as int, self.end as int) } }
impl<T> Located<T> {
    #[verifier::external_body]
    pub fn new<S: IntoSpan>(inner: T, span: S) -> (r: Self)
        requires span.as_sp().0 <= span.as_sp().1, gbnd(span.as_sp().0), gbnd(span.as_sp().1),   // [C04] every located item is a reportable location
        ensures r.val() == inner, r.sp().s() == span.as_sp().0, r.sp().e() == span.as_sp().1
    { unimplemented!() }
}
impl<T> core::ops::Deref for Located<T> {
    type Target = T;
/*@ fn src/located.rs <Deref~for~Located>::deref
tags C04
ret r
spec:
        ensures *r == self.val()
@*/
}
// TRUSTED stand-in for `crate::error::Recover` as used by the covered code (`Recover::recover()` for a located
// quantity): the recovered value is located at Span(0, 0) (src/located.rs + src/span.rs Recover impls)
pub trait Recover: Sized { spec fn rec_ok(r: Self) -> bool; fn recover() -> (r: Self) ensures Self::rec_ok(r); }
impl Recover for crate::quantity::Value {
    open spec fn rec_ok(r: Self) -> bool { true }
    #[verifier::external_body] fn recover() -> (r: Self) { unimplemented!() }
}
impl<T> Recover for Located<T> {
    open spec fn rec_ok(r: Self) -> bool { r.sp().s() == 0 && r.sp().e() == 0 }
    #[verifier::external_body] fn recover() -> (r: Self) { unimplemented!() }
}
} // verus!
} // mod located

pub mod error {
use vstd::prelude::*;
use crate::*;
use crate::span::Span;
use std::borrow::Cow;
verus! {
pub type CowStr = Cow<'static, str>;
pub type Label = (Span, Option<CowStr>);
/*@ type src/error.rs Severity
derive Debug, Clone, Copy, PartialEq, Eq, Structural
@*/
/*@ type src/error.rs Stage
derive Debug, Clone, Copy, PartialEq, Eq, Structural
@*/
// TRUSTED stand-in: SourceDiag is opaque (its real fields are Cow/Arc<dyn Error>); the view below is what
// the assumed constructor contracts speak about.
#[verifier::external_body]
pub struct SourceDiag { _p: () }
impl SourceDiag {
    pub uninterp spec fn sev(&self) -> Severity;
    pub uninterp spec fn stage_spec(&self) -> Stage;
    /// spans of the labels, primary first
    pub uninterp spec fn lbls(&self) -> Seq<Span>;

/*@ fn src/error.rs SourceDiag::error stub
ret r
spec:
        requires label.0.ok()     // [C04] every diagnostic label must be a reportable location
        ensures r.sev() == Severity::Error, r.stage_spec() == stage, r.lbls() == seq![label.0]
@*/
/*@ fn src/error.rs SourceDiag::warning stub
ret r
spec:
        requires label.0.ok()     // [C04]
        ensures r.sev() == Severity::Warning, r.stage_spec() == stage, r.lbls() == seq![label.0]
@*/
/*@ fn src/error.rs SourceDiag::is_error stub
ret r
spec:
        ensures r == (self.sev() == Severity::Error)
@*/
/*@ fn src/error.rs SourceDiag::is_warning stub
ret r
spec:
        ensures r == (self.sev() == Severity::Warning)
@*/
/*@ fn src/error.rs SourceDiag::label stub
ret r
rewrite `mut self` => `self`
spec:
        requires label.0.ok()     // [C04]
        ensures r.sev() == self.sev(), r.stage_spec() == self.stage_spec(), r.lbls() == self.lbls().push(label.0)
@*/
/*@ fn src/error.rs SourceDiag::add_hint stub
spec:
        ensures final(self).sev() == old(self).sev(), final(self).lbls() == old(self).lbls()
@*/
/*@ fn src/error.rs SourceDiag::hint stub
ret r
rewrite `mut self` => `self`
spec:
        ensures r.sev() == self.sev(), r.stage_spec() == self.stage_spec(), r.lbls() == self.lbls()
@*/
}
// X3: the repository's `label!` macro builds `(span.to_owned().into(), message.into())`; shadowed by
// these two functions (same pair; the span conversion is the identity for Span arguments)
#[verifier::external_body]
pub fn mk_label(sp: Span) -> (r: Label) ensures r.0 == sp { (sp, None) }
#[verifier::external_body]
pub fn mk_label_msg(sp: Span, m: impl Into<CowStr>) -> (r: Label) ensures r.0 == sp { (sp, Some(m.into())) }
#[verifier::external_body]
pub fn fmt_opaque() -> String { String::new() }
} // verus!
} // mod error

pub mod quantity {
use vstd::prelude::*;
verus! {
/*@ type src/quantity.rs Value
derive
@*/
/*@ type src/quantity.rs Number
derive Clone, Copy
@*/
} // verus!
} // mod quantity

verus! {
// X8: TRUSTED stand-in for the bitflags!-generated `Extensions`; constants copied from src/lib.rs each run
/*@ bitflags src/lib.rs Extensions
@*/
} // verus!

pub mod parser_model {
use vstd::prelude::*;
use crate::*;
use crate::{located::Located, quantity::Value, span::Span, text::Text};
verus! {
// X8: TRUSTED stand-in for the bitflags!-generated `Modifiers`; constants copied from src/parser/model.rs each run
/*@ bitflags src/parser/model.rs Modifiers
@*/
/*@ type src/parser/model.rs Ingredient
derive
@*/
/*@ type src/parser/model.rs Cookware
derive
@*/
/*@ type src/parser/model.rs Timer
derive
@*/
/*@ type src/parser/model.rs Quantity
derive
@*/
/*@ type src/parser/model.rs QuantityValue
derive
@*/
impl QuantityValue {
/*@ fn src/parser/model.rs QuantityValue::span
tags C04
ret r
spec:
        ensures r == self.value.sp()
@*/
}
/*@ type src/parser/model.rs IntermediateData
derive Clone, Copy
@*/
/*@ type src/parser/model.rs IntermediateRefMode
derive Clone, Copy, PartialEq, Eq, Structural
@*/
/*@ type src/parser/model.rs IntermediateTargetKind
derive Clone, Copy, PartialEq, Eq, Structural
@*/
} // verus!
} // mod parser_model

pub mod parser_ev {
use vstd::prelude::*;
use crate::*;
use crate::{located::Located, error::SourceDiag, text::Text, parser_model::*};
verus! {
/*@ type src/parser/mod.rs Event
derive
@*/
/*@ type src/parser/mod.rs BlockKind
derive Clone, PartialEq, Structural
@*/
/// the source range reported by an event, if it carries one
pub open spec fn ev_range<'i>(ev: Event<'i>) -> Option<(int, int)> {
    match ev {
        Event::Text(t) => Some((t.start_spec(), t.end_spec())),
        Event::Ingredient(l) => Some((l.sp().s(), l.sp().e())),
        Event::Cookware(l) => Some((l.sp().s(), l.sp().e())),
        Event::Timer(l) => Some((l.sp().s(), l.sp().e())),
        _ => None,
    }
}
/// C04: from index `from` on, the located events lie in source order without overlapping, between `lo` and `hi`
pub open spec fn ev_ordered<'i>(evs: Seq<Event<'i>>, from: int, lo: int, hi: int) -> bool {
    &&& forall|k: int| from <= k < evs.len() && ev_range(#[trigger] evs[k]).is_some() ==> lo <= ev_range(evs[k]).unwrap().0 <= ev_range(evs[k]).unwrap().1 <= hi
    &&& forall|k1: int, k2: int| from <= k1 < k2 < evs.len() && ev_range(#[trigger] evs[k1]).is_some() && ev_range(#[trigger] evs[k2]).is_some()
            ==> ev_range(evs[k1]).unwrap().1 <= ev_range(evs[k2]).unwrap().0
}
pub proof fn lemma_ordered_grown<'i>(old_e: Seq<Event<'i>>, new_e: Seq<Event<'i>>, from: int, lo: int, hi: int)
    requires ev_ordered(old_e, from, lo, hi), only_diags(new_e, old_e), 0 <= from <= old_e.len()
    ensures ev_ordered(new_e, from, lo, hi)
{
    assert forall|k: int| from <= k < new_e.len() && ev_range(#[trigger] new_e[k]).is_some() implies k < old_e.len() && new_e[k] == old_e[k] by {
        if k >= old_e.len() { assert(new_e[k] is Error || new_e[k] is Warning); }
        else { assert(new_e.subrange(0, old_e.len() as int)[k] == new_e[k]); }
    }
}
pub proof fn lemma_ordered_weaken<'i>(evs: Seq<Event<'i>>, from: int, lo: int, hi: int, hi2: int)
    requires ev_ordered(evs, from, lo, hi), hi <= hi2 ensures ev_ordered(evs, from, lo, hi2) {}
pub proof fn lemma_ordered_push<'i>(evs: Seq<Event<'i>>, e: Event<'i>, from: int, lo: int, hi: int, hi2: int)
    requires ev_ordered(evs, from, lo, hi), hi <= hi2, 0 <= from <= evs.len(),
        ev_range(e).is_some() ==> hi <= ev_range(e).unwrap().0 <= ev_range(e).unwrap().1 <= hi2 && lo <= hi,
    ensures ev_ordered(evs.push(e), from, lo, hi2)
{
    let n = evs.push(e);
    assert forall|k: int| from <= k < n.len() && ev_range(#[trigger] n[k]).is_some() implies lo <= ev_range(n[k]).unwrap().0 <= ev_range(n[k]).unwrap().1 <= hi2 by {
        if k < evs.len() { assert(n[k] == evs[k]); }
    }
    assert forall|k1: int, k2: int| from <= k1 < k2 < n.len() && ev_range(#[trigger] n[k1]).is_some() && ev_range(#[trigger] n[k2]).is_some()
        implies ev_range(n[k1]).unwrap().1 <= ev_range(n[k2]).unwrap().0 by {
        assert(n[k1] == evs[k1]);
        if k2 < evs.len() { assert(n[k2] == evs[k2]); }
    }
}
/// C05: the span reported by event `ev` includes the bytes [a, b)
pub open spec fn ev_covers<'i>(ev: Event<'i>, a: int, b: int) -> bool {
    match ev {
        Event::Text(t) => t.frags().len() > 0 && t.start_spec() <= a && b <= t.end_spec(),
        Event::Ingredient(l) => l.sp().s() <= a && b <= l.sp().e(),
        Event::Cookware(l) => l.sp().s() <= a && b <= l.sp().e(),
        Event::Timer(l) => l.sp().s() <= a && b <= l.sp().e(),
        Event::Metadata { key, value } => (key.frags().len() > 0 && key.start_spec() <= a && b <= key.end_spec())
            || (value.frags().len() > 0 && value.start_spec() <= a && b <= value.end_spec()),
        Event::Section { name } => name.is_some() && name.unwrap().frags().len() > 0 && name.unwrap().start_spec() <= a && b <= name.unwrap().end_spec(),
        _ => false,
    }
}
/// C05: token `t` needs no cover (no letter/digit content) or some event queued at index >= from covers it
pub open spec fn tok_covered<'i>(t: Token, evs: Seq<Event<'i>>, from: int) -> bool {
    (content_kind(t.kind) && cs(t) < t.span.e()) ==> exists|k: int| from <= k < evs.len() && ev_covers(#[trigger] evs[k], cs(t), t.span.e())
}
/// C05: event `ev` alone covers every token of `ts` that can hold a letter or digit
pub open spec fn covered_by<'i>(ts: Seq<Token>, ev: Event<'i>) -> bool {
    forall|i: int| 0 <= i < ts.len() && content_kind((#[trigger] ts[i]).kind) && cs(ts[i]) < ts[i].span.e() ==> ev_covers(ev, cs(ts[i]), ts[i].span.e())
}
pub proof fn lemma_covered_by_push<'i>(ts: Seq<Token>, ev: Event<'i>, evs: Seq<Event<'i>>, from: int)
    requires covered_by(ts, ev), 0 <= from <= evs.len()
    ensures covered(ts, ts.len() as int, evs.push(ev), from)
{
    assert forall|i: int| 0 <= i < ts.len() implies tok_covered(#[trigger] ts[i], evs.push(ev), from) by {
        if content_kind(ts[i].kind) && cs(ts[i]) < ts[i].span.e() { assert(evs.push(ev)[evs.len() as int] == ev); }
    }
}
pub proof fn lemma_covered_from<'i>(ts: Seq<Token>, upto: int, evs: Seq<Event<'i>>, from2: int, from1: int)
    requires covered(ts, upto, evs, from2), from1 <= from2
    ensures covered(ts, upto, evs, from1)
{
    assert forall|i: int| 0 <= i < upto implies tok_covered(#[trigger] ts[i], evs, from1) by {
        assert(tok_covered(ts[i], evs, from2));
    }
}
/// C05: every token before index `upto` is covered
pub open spec fn covered<'i>(ts: Seq<Token>, upto: int, evs: Seq<Event<'i>>, from: int) -> bool {
    forall|i: int| 0 <= i < upto ==> tok_covered(#[trigger] ts[i], evs, from)
}
pub proof fn lemma_tok_covered_grown<'i>(t: Token, old_e: Seq<Event<'i>>, new_e: Seq<Event<'i>>, from: int)
    requires tok_covered(t, old_e, from), ev_grown(new_e, old_e), 0 <= from
    ensures tok_covered(t, new_e, from)
{
    if content_kind(t.kind) && cs(t) < t.span.e() {
        let k = choose|k: int| from <= k < old_e.len() && ev_covers(#[trigger] old_e[k], cs(t), t.span.e());
        assert(new_e.subrange(0, old_e.len() as int)[k] == new_e[k]);
        assert(ev_covers(new_e[k], cs(t), t.span.e()));
    }
}
pub proof fn lemma_covered_grown<'i>(ts: Seq<Token>, upto: int, old_e: Seq<Event<'i>>, new_e: Seq<Event<'i>>, from: int)
    requires covered(ts, upto, old_e, from), ev_grown(new_e, old_e), 0 <= from
    ensures covered(ts, upto, new_e, from)
{
    assert forall|i: int| 0 <= i < upto implies tok_covered(#[trigger] ts[i], new_e, from) by { lemma_tok_covered_grown(ts[i], old_e, new_e, from); }
}
/// the queue only grows: `old` is a prefix of `new`
pub open spec fn ev_grown<'i>(new: Seq<Event<'i>>, old: Seq<Event<'i>>) -> bool {
    old.len() <= new.len() && new.subrange(0, old.len() as int) == old
}
/// ... and everything appended is a diagnostic (Error / Warning)
pub open spec fn only_diags<'i>(new: Seq<Event<'i>>, old: Seq<Event<'i>>) -> bool {
    ev_grown(new, old) && forall|k: int| old.len() <= k < new.len() ==> (#[trigger] new[k] is Error || new[k] is Warning)
}
pub broadcast proof fn lemma_grown_refl<'i>(a: Seq<Event<'i>>) ensures ev_grown(a, a), #[trigger] only_diags(a, a) { assert(a.subrange(0, a.len() as int) =~= a); }
pub proof fn lemma_grown_trans<'i>(c: Seq<Event<'i>>, b: Seq<Event<'i>>, a: Seq<Event<'i>>)
    requires ev_grown(c, b), ev_grown(b, a) ensures ev_grown(c, a)
{ assert(c.subrange(0, a.len() as int) =~= b.subrange(0, a.len() as int)) by { assert(c.subrange(0, b.len() as int).subrange(0, a.len() as int) =~= c.subrange(0, a.len() as int)); } }
pub broadcast proof fn lemma_diags_trans<'i>(c: Seq<Event<'i>>, b: Seq<Event<'i>>, a: Seq<Event<'i>>)
    requires #[trigger] only_diags(c, b), #[trigger] only_diags(b, a) ensures only_diags(c, a)
{
    lemma_grown_trans(c, b, a);
    assert forall|k: int| a.len() <= k < c.len() implies (#[trigger] c[k] is Error || c[k] is Warning) by {
        if k < b.len() { assert(c.subrange(0, b.len() as int)[k] == c[k]); assert(b[k] is Error || b[k] is Warning); }
    }
}
pub proof fn lemma_grown_push<'i>(a: Seq<Event<'i>>, e: Event<'i>) ensures ev_grown(a.push(e), a), (e is Error || e is Warning) ==> only_diags(a.push(e), a)
{ assert(a.push(e).subrange(0, a.len() as int) =~= a); }
/// C02: no metadata entry among the events queued at index >= from
pub open spec fn no_meta_since<'i>(evs: Seq<Event<'i>>, from: int) -> bool { forall|k: int| from <= k < evs.len() ==> !((#[trigger] evs[k]) is Metadata) }
pub proof fn lemma_no_meta_diags<'i>(new: Seq<Event<'i>>, old: Seq<Event<'i>>, from: int)
    requires only_diags(new, old), no_meta_since(old, from), 0 <= from <= old.len()
    ensures no_meta_since(new, from)
{
    assert forall|k: int| from <= k < new.len() implies !((#[trigger] new[k]) is Metadata) by {
        if k < old.len() { assert(new.subrange(0, old.len() as int)[k] == new[k]); assert(!(old[k] is Metadata)); }
    }
}
pub proof fn lemma_no_meta_push<'i>(a: Seq<Event<'i>>, e: Event<'i>, from: int)
    requires no_meta_since(a, from), !(e is Metadata)
    ensures no_meta_since(a.push(e), from)
{}
} // verus!
} // mod parser_ev
pub use crate::parser_ev::*;

verus! {
// TRUSTED: slice::Iter::position returns the first index whose predicate holds (no vstd specification).
// Stated over the dereferenced remaining items so that callers can match it against the slice view.
pub open spec fn vals<T>(s: Seq<&T>) -> Seq<T> { Seq::new(s.len(), |i: int| *s[i]) }
pub assume_specification<'a, T, P: FnMut(&'a T) -> bool>[ <core::slice::Iter<'a, T> as Iterator>::position::<P> ](it: &mut core::slice::Iter<'a, T>, pred: P) -> (r: Option<usize>) where core::slice::Iter<'a, T>: Sized
    requires forall|x: &'a T| #[trigger] pred.requires((x,)),
    ensures
        r.is_some() ==> r.unwrap() < vstd::std_specs::iter::IteratorSpec::remaining(&*old(it)).len()
            && pred.ensures((&vals(vstd::std_specs::iter::IteratorSpec::remaining(&*old(it)))[r.unwrap() as int],), true)
            && forall|i: int| #![trigger vals(vstd::std_specs::iter::IteratorSpec::remaining(&*old(it)))[i]] 0 <= i < r.unwrap() ==> pred.ensures((&vals(vstd::std_specs::iter::IteratorSpec::remaining(&*old(it)))[i],), false),
        r.is_none() ==> forall|i: int| #![trigger vals(vstd::std_specs::iter::IteratorSpec::remaining(&*old(it)))[i]] 0 <= i < vstd::std_specs::iter::IteratorSpec::remaining(&*old(it)).len() ==> pred.ensures((&vals(vstd::std_specs::iter::IteratorSpec::remaining(&*old(it)))[i],), false),
;
// TRUSTED (X4 targets): `s.iter().all(p)` / `s.iter().any(p)` on a slice. vstd has no specification for them and
// one cannot be attached (they are overridden in `impl Iterator for slice::Iter`), so the listed call sites are
// rewritten to these wrappers, which perform the same operation.
#[verifier::external_body]
pub fn slice_all<T, P: Fn(&T) -> bool>(s: &[T], pred: P) -> (r: bool)
    requires forall|x: &T| #[trigger] pred.requires((x,)),
    ensures
        r ==> forall|i: int| 0 <= i < s@.len() ==> pred.ensures((&#[trigger] s@[i],), true),
        !r ==> exists|i: int| 0 <= i < s@.len() && pred.ensures((&#[trigger] s@[i],), false),
{ s.iter().all(pred) }
#[verifier::external_body]
pub fn slice_any<T, P: Fn(&T) -> bool>(s: &[T], pred: P) -> (r: bool)
    requires forall|x: &T| #[trigger] pred.requires((x,)),
    ensures
        !r ==> forall|i: int| 0 <= i < s@.len() ==> pred.ensures((&#[trigger] s@[i],), false),
        r ==> exists|i: int| 0 <= i < s@.len() && pred.ensures((&#[trigger] s@[i],), true),
{ s.iter().any(pred) }
#[verifier::external_body]
pub fn slice_find<'a, T, P: Fn(&&'a T) -> bool>(s: &'a [T], pred: P) -> (r: Option<&'a T>)
    requires forall|x: &&'a T| #[trigger] pred.requires((x,)),
    ensures
        r.is_none() ==> forall|i: int| 0 <= i < s@.len() ==> pred.ensures((&&#[trigger] s@[i],), false),
        r.is_some() ==> exists|i: int| 0 <= i < s@.len() && *r.unwrap() == #[trigger] s@[i] && pred.ensures((&&s@[i],), true),
{ s.iter().find(pred) }
#[verifier::external_body]
pub fn slice_rposition<T, P: Fn(&T) -> bool>(s: &[T], pred: P) -> (r: Option<usize>)
    requires forall|x: &T| #[trigger] pred.requires((x,)),
    ensures
        r.is_some() ==> r.unwrap() < s@.len() && pred.ensures((&s@[r.unwrap() as int],), true)
            && forall|i: int| r.unwrap() < i < s@.len() ==> pred.ensures((&#[trigger] s@[i],), false),
        r.is_none() ==> forall|i: int| 0 <= i < s@.len() ==> pred.ensures((&#[trigger] s@[i],), false),
{ s.iter().rposition(pred) }
pub broadcast proof fn lemma_vals_skip<T>(s: Seq<&T>, k: int)
    requires 0 <= k <= s.len()
    ensures #[trigger] vals(s.skip(k)) == vals(s).skip(k)
{ assert(vals(s.skip(k)) =~= vals(s).skip(k)); }
pub broadcast proof fn lemma_vals_drop_first<T>(s: Seq<&T>)
    requires s.len() > 0
    ensures #[trigger] vals(s.drop_first()) == vals(s).drop_first()
{ assert(vals(s.drop_first()) =~= vals(s).drop_first()); }
pub proof fn lemma_vals_as_ref<T>(s: Seq<T>) ensures vals(s.as_ref()) == s { assert(vals(s.as_ref()) =~= s); }
} // verus!

pub mod block_parser {
use vstd::prelude::*;
use vstd::string::StringSliceAdditionalSpecFns;
use vstd::std_specs::iter::IteratorSpec;
use std::collections::VecDeque;
use crate::*;
use crate::parser_ev::Event;
use crate::{
    error::SourceDiag,
    lexer::TokenKind,
    text::{Text, TextFragment},
    span::Span,
};
verus! {
/// C04: fragment f lies in [lo, hi] and is the input slice at its span
pub open spec fn frag_ok(f: TextFragment, lo: int, hi: int) -> bool { lo <= f.s() && f.e() <= hi && f.faithful() }
pub open spec fn frags_ok(fs: Seq<TextFragment>, lo: int, hi: int) -> bool { forall|k: int| 0 <= k < fs.len() ==> frag_ok(#[trigger] fs[k], lo, hi) }
pub proof fn lemma_frags_weaken(fs: Seq<TextFragment>, lo: int, hi: int, hi2: int)
    requires frags_ok(fs, lo, hi), hi <= hi2 ensures frags_ok(fs, lo, hi2) {}
pub proof fn lemma_frags_push(pre: Seq<TextFragment>, post: Seq<TextFragment>, lo: int, hi: int, hi2: int)
    requires frags_ok(pre, lo, hi), hi <= hi2, post.len() == pre.len() + 1, post.drop_last() == pre, frag_ok(post.last(), lo, hi2)
    ensures frags_ok(post, lo, hi2)
{
    assert forall|k: int| 0 <= k < post.len() implies frag_ok(#[trigger] post[k], lo, hi2) by {
        if k < pre.len() { assert(post.drop_last()[k] == post[k]); assert(frag_ok(pre[k], lo, hi)); }
    }
}
/// C17: the fragments fs are disjoint from every comment token among the first `upto` tokens of ts
pub open spec fn cm_ok(fs: Seq<TextFragment>, ts: Seq<Token>, upto: int) -> bool {
    forall|k: int, j: int| 0 <= k < upto && is_comment_kind((#[trigger] ts[k]).kind) && 0 <= j < fs.len()
        ==> (#[trigger] fs[j]).e() <= ts[k].span.s() || ts[k].span.e() <= fs[j].s()
}
pub open spec fn cm_before(ts: Seq<Token>, upto: int, pos: int) -> bool {
    forall|k: int| 0 <= k < upto && is_comment_kind((#[trigger] ts[k]).kind) ==> ts[k].span.e() <= pos
}
pub proof fn lemma_cm_push(pre: Seq<TextFragment>, post: Seq<TextFragment>, ts: Seq<Token>, upto: int)
    requires cm_ok(pre, ts, upto), post.len() == pre.len() + 1, post.drop_last() == pre, cm_before(ts, upto, post.last().s())
    ensures cm_ok(post, ts, upto)
{
    assert forall|k: int, j: int| 0 <= k < upto && is_comment_kind((#[trigger] ts[k]).kind) && 0 <= j < post.len()
        implies (#[trigger] post[j]).e() <= ts[k].span.s() || ts[k].span.e() <= post[j].s() by {
        if j < pre.len() { assert(post.drop_last()[j] == post[j]); }
    }
}
pub proof fn lemma_cm_next(fs: Seq<TextFragment>, ts: Seq<Token>, upto: int, lo: int)
    requires cm_ok(fs, ts, upto), 0 <= upto < ts.len(), is_comment_kind(ts[upto].kind) ==> frags_ok(fs, lo, ts[upto].span.s())
    ensures cm_ok(fs, ts, upto + 1)
{
    assert forall|k: int, j: int| 0 <= k < upto + 1 && is_comment_kind((#[trigger] ts[k]).kind) && 0 <= j < fs.len()
        implies (#[trigger] fs[j]).e() <= ts[k].span.s() || ts[k].span.e() <= fs[j].s() by {
        if k == upto { assert(frag_ok(fs[j], lo, ts[upto].span.s())); }
    }
}
/*@ type src/parser/block_parser.rs BlockParser
derive
rewrite `    tokens: &'t [Token],` => `    pub(crate) tokens: &'t [Token],`
@*/

impl<'t, 'i> BlockParser<'t, 'i> {
    pub open(crate) spec fn toks(&self) -> Seq<Token> { self.tokens@ }
    pub open(crate) spec fn cur(&self) -> int { self.current as int }
    pub open(crate) spec fn inp(&self) -> &'i str { self.input }
    pub open(crate) spec fn ext(&self) -> Extensions { self.extensions }
    pub open(crate) spec fn evs(&self) -> Seq<Event<'i>> { self.events@ }
    /// representation invariant of the block parser
    pub open spec fn wf(&self) -> bool {
        &&& 0 < self.toks().len() && 0 <= self.cur() <= self.toks().len()
        &&& toks_ok(self.toks())
        &&& self.inp().spec_bytes() == the_input()
    }
    /// frame: nothing but `current` and the event queue may change
    #[verifier::prophetic]
    pub open spec fn same(&self, o: &Self) -> bool { self.toks() == o.toks() && self.inp() == o.inp() && self.ext() == o.ext() && self.fin() == o.fin() }
    /// the caller's event queue at the moment the block parser gives it back (a prophecy: `events` is a `&mut` borrow of that queue)
    #[verifier::prophetic]
    pub open(crate) spec fn fin(&self) -> Seq<Event<'i>> { final(self.events)@ }
    /// offset in the input of the next unparsed token (end of the last parsed one)
    pub open spec fn off(&self) -> int { cur_off(self.toks(), self.cur()) }
    /// the tokens not yet parsed
    pub open spec fn rest_spec(&self) -> Seq<Token> { self.toks().subrange(self.cur(), self.toks().len() as int) }

    /// when a block parser dies (finished or not) the caller's queue holds exactly the events it had at that moment
    pub broadcast proof fn lemma_resolved(bp: BlockParser<'t, 'i>)
        requires #[trigger] has_resolved(bp)
        ensures bp.fin() == bp.evs()
    {}
/*@ fn src/parser/block_parser.rs BlockParser::new
tags C03 C04
ret r
spec:
        requires tokens@.len() > 0,   // [C03] block splitter never hands an empty block (parser/mod.rs next_block)
            toks_ok(tokens@), input.spec_bytes() == the_input(),
            tokens@[0].span.s() < blen(input),
        ensures r.wf(), r.toks() == tokens@, r.cur() == 0, r.inp() == input, r.ext() == extensions, r.evs() == old(events)@, r.fin() == final(events)@
before `debug_assert!(`:
        proof { broadcast use axiom_str_len_bound; lemma_mono(tokens@, 0, tokens@.len() - 1); }
@*/
/*@ fn src/parser/block_parser.rs BlockParser::base_offset
tags C03
ret r
spec:
        requires self.wf()
        ensures r == self.toks()[0].span.s()
@*/
/*@ fn src/parser/block_parser.rs BlockParser::event
tags C03 C05
spec:
        ensures final(self).same(old(self)), final(self).cur() == old(self).cur(), final(self).evs() == old(self).evs().push(ev)
@*/
/*@ fn src/parser/block_parser.rs BlockParser::finish
tags C03 C05
spec:
        requires self.cur() == self.toks().len()   // [C03] [C05] every token of the block has been parsed
        ensures self.fin() == self.evs()           // the borrow of the caller's queue ends here
@*/
/*@ fn src/parser/block_parser.rs BlockParser::extension
tags C02
ret r
spec:
        ensures r == self.ext().has(ext)
@*/
/*@ fn src/parser/block_parser.rs BlockParser::with_recover
tags C03 C05
ret r
spec:
        requires old(self).wf(),
            forall|b: &mut Self| *b == *old(self) ==> #[trigger] f.requires((b,)),
            // whatever f does, it keeps the block parser well formed and touches only `current` and the events
            forall|b: &mut Self, o: Option<O>| *b == *old(self) && #[trigger] f.ensures((b,), o) ==> final(b).wf() && final(b).same(b),
        ensures final(self).wf(), final(self).same(old(self)),
            r.is_none() ==> final(self).cur() == old(self).cur(),     // [C05] a failed attempt gives every token back
            exists|b: &mut Self| *b == *old(self) && #[trigger] f.ensures((b,), r) && final(self).evs() == final(b).evs()
                && (r.is_some() ==> final(self).cur() == final(b).cur()),
@*/
/*@ fn src/parser/block_parser.rs BlockParser::token_str
tags C03 C04
ret r
spec:
        requires self.wf(), token.span.s() <= token.span.e(), gbnd(token.span.s()), gbnd(token.span.e()),    // [C03] [C04] the slice must be in bounds on char boundaries
        ensures r.spec_bytes() == the_input().subrange(token.span.s(), token.span.e())   // [C04]
@*/
/*@ fn src/parser/block_parser.rs BlockParser::slice_str
tags C03 C04
ret r
spec:
        requires self.wf(), toks_ok(s@),
        ensures s@.len() > 0 ==> r.spec_bytes() == the_input().subrange(s@[0].span.s(), s@.last().span.e()),   // [C04]
            s@.len() == 0 ==> blen(r) == 0,
enter:
        proof { reveal_strlit(""); }
before `let start = s.first().unwrap().span.start();`:
        proof { lemma_mono(s@, 0, s@.len() - 1); }
@*/
/*@ fn src/parser/block_parser.rs BlockParser::text
tags C03 C04 C05 C17
ret t
attr #[verifier::spinoff_prover]
spec:
        requires self.wf(), toks_ok(tokens@), tokens@.len() > 0 ==> offset == tokens@[0].span.s(),   // [C03]
            gbnd(offset as int),
        ensures t.wf(), gbnd(t.start_spec()), gbnd(t.end_spec()), t.start_spec() <= t.end_spec(),     // [C04] the text's own span is a reportable location
            tokens@.len() == 0 ==> t.frags().len() == 0 && t.start_spec() == offset && t.end_spec() == offset,
            tokens@.len() > 0 ==> tokens@[0].span.s() <= t.start_spec() && t.end_spec() <= tokens@.last().span.e(),    // [C04]
            // every fragment lies inside the token range and is the input slice at its span
            tokens@.len() > 0 ==> frags_ok(t.frags(), tokens@[0].span.s(), tokens@.last().span.e()),      // [C04]
            // [C05] every token that can hold a letter or digit lies inside the text's span
            forall|k: int| 0 <= k < tokens@.len() && content_kind(tokens@[k].kind) && cs(tokens@[k]) < tokens@[k].span.e() ==>
                t.frags().len() > 0 && t.start_spec() <= cs(#[trigger] tokens@[k]) && tokens@[k].span.e() <= t.end_spec(),      // [C05]
            // [C17] no byte of a comment token lies in any fragment
            cm_ok(t.frags(), tokens@, tokens@.len() as int),      // [C17]
enter:
        broadcast use axiom_str_len_bound;
        proof { assert(blen(self.input) <= usize::MAX); }
loop 0 it it:
            invariant
                self.wf(), toks_ok(tokens@), tokens@.len() > 0, the_input().len() <= usize::MAX,
                // [C17] comments seen so far are disjoint from every fragment and end before the pending run [start, end)
                cm_ok(t.frags(), tokens@, it.index@ as int),      // [C17]
                cm_before(tokens@, it.index@ as int, start as int),      // [C17]
                t.wf(),
                t.end_spec() <= start <= end,
                end <= cur_off(tokens@, it.index@ as int),
                gbnd(start as int), gbnd(end as int),     // [C04]
                tokens@[0].span.s() <= start,
                gbnd(t.start_spec()), gbnd(t.end_spec()),     // [C04]
                forall|k: int| 0 <= k < it.index@ && content_kind(tokens@[k].kind) && cs(tokens@[k]) < tokens@[k].span.e() ==> {
                    &&& (t.frags().len() > 0 || start < end)
                    &&& (if t.frags().len() > 0 { t.start_spec() } else { start as int }) <= cs(#[trigger] tokens@[k])
                    &&& tokens@[k].span.e() <= (if start < end { end as int } else { t.end_spec() })
                },      // [C05]
                t.frags().len() == 0 ==> t.start_spec() == tokens@[0].span.s(),
                t.frags().len() > 0 ==> tokens@[0].span.s() <= t.start_spec(),
                frags_ok(t.frags(), tokens@[0].span.s(), start as int),     // [C04]
before `match token.kind {`:
            proof { t.lemma_span_order(); }
            proof { let idx = it.index@ as int; lemma_mono(tokens@, 0, idx); assert(*token == tokens@[idx]); if idx > 0 { lemma_tok(tokens@, idx - 1); } }
            let ghost pre = t.frags();
            let ghost lo = tokens@[0].span.s();
            let ghost start0 = start as int;
            let ghost idx0 = it.index@ as int;
            proof { if !(token.kind == TokenKind::Newline || is_comment_kind(token.kind) || token.kind == TokenKind::Escaped) { lemma_cm_next(t.frags(), tokens@, idx0, lo); } }
after `t.append_str(&self.input[start..end], start);`#0 or before `t.append_fragment(TextFragment::soft_break(`:
                    proof { if t.frags().len() > pre.len() { lemma_frags_push(pre, t.frags(), lo, start0, end as int); lemma_cm_push(pre, t.frags(), tokens@, idx0); } else { lemma_frags_weaken(pre, lo, start0, end as int); } }
                    let ghost pre2 = t.frags();
before `start = token.span.end();`#0:
                    proof { assert(t.frags().drop_last() =~= pre2); lemma_frags_push(pre2, t.frags(), lo, end as int, token.span.e());
                            lemma_cm_push(pre2, t.frags(), tokens@, idx0); lemma_cm_next(t.frags(), tokens@, idx0, lo); }
after `T![line comment] | T![block comment] => {<NL>                    t.append_str(&self.input[start..end], start);` or before `start = token.span.end();`#1:
                    proof {
                        if t.frags().len() > pre.len() { lemma_frags_push(pre, t.frags(), lo, start0, token.span.s()); lemma_cm_push(pre, t.frags(), tokens@, idx0); } else { lemma_frags_weaken(pre, lo, start0, token.span.s()); }
                        lemma_cm_next(t.frags(), tokens@, idx0, lo);
                        lemma_frags_weaken(t.frags(), lo, token.span.s(), token.span.e());
                    }
after `T![escaped] => {<NL>                    t.append_str(&self.input[start..end], start);` or before `debug_assert!(<NL>                        token.len() >= 1`:
                    proof { if t.frags().len() > pre.len() { lemma_frags_push(pre, t.frags(), lo, start0, token.span.s() + 1); lemma_cm_push(pre, t.frags(), tokens@, idx0); } else { lemma_frags_weaken(pre, lo, start0, token.span.s() + 1); }
                            lemma_cm_next(t.frags(), tokens@, idx0, lo); }
before `_ => end = token.span.end(),`:
                // (default arm: the token is not a comment)
afterloop 0:
        proof { lemma_mono(tokens@, 0, tokens@.len() - 1); assert(end <= tokens@.last().span.e()); t.lemma_span_order(); }
        let ghost pre = t.frags();
        let ghost lo = tokens@[0].span.s();
        let ghost start0 = start as int;
after `<NL>        t.append_str(&self.input[start..end], start);`:
        proof { if t.frags().len() > pre.len() { lemma_frags_push(pre, t.frags(), lo, start0, tokens@.last().span.e()); lemma_cm_push(pre, t.frags(), tokens@, tokens@.len() as int); } else { lemma_frags_weaken(pre, lo, start0, tokens@.last().span.e()); } t.lemma_span_order(); }
@*/
/*@ fn src/parser/block_parser.rs BlockParser::capture_slice
tags C03 C05
ret r
spec:
        requires old(self).wf(),
            forall|b: &mut Self| *b == *old(self) ==> #[trigger] f.requires((b,)),
            forall|b: &mut Self| *b == *old(self) && #[trigger] f.ensures((b,), ()) ==> final(b).wf() && final(b).same(b) && final(b).cur() >= b.cur(),
        ensures final(self).wf(), final(self).same(old(self)), old(self).cur() <= final(self).cur(),
            r@ == old(self).toks().subrange(old(self).cur(), final(self).cur()), toks_ok(r@),
            exists|b: &mut Self| *b == *old(self) && #[trigger] f.ensures((b,), ()) && final(self).evs() == final(b).evs() && final(self).cur() == final(b).cur(),
before `&self.tokens[start..end]`:
        proof { lemma_sub_ok(self.toks(), start as int, end as int); }
@*/
/*@ fn src/parser/block_parser.rs BlockParser::span
tags C03 C04
ret r
spec:
        requires self.wf()
        ensures r.s() == self.toks()[0].span.s(), r.e() == self.toks().last().span.e(), r.ok()    // [C04]
@*/
/*@ fn src/parser/block_parser.rs BlockParser::current_offset
tags C03 C04
ret r
spec:
        requires self.wf()
        ensures r == self.off(), gbnd(r as int),    // [C04]
            self.cur() < self.toks().len() ==> r == self.toks()[self.cur()].span.s(),
enter:
        proof { lemma_off_mono(self.toks(), self.cur(), self.cur()); }
closure @ `|t| t.span.end()` `&Token` ret `e: usize`:
        ensures e == t.span.e()
@*/
/*@ fn src/parser/block_parser.rs BlockParser::tokens
tags C03
ret r
spec:
        ensures r@ == self.toks()
@*/
/*@ fn src/parser/block_parser.rs BlockParser::parsed
tags C03
ret r
spec:
        requires self.wf()
        ensures r@ == self.toks().subrange(0, self.cur())
@*/
/*@ fn src/parser/block_parser.rs BlockParser::rest
tags C03
ret r
spec:
        requires self.wf()
        ensures r@ == self.toks().subrange(self.cur(), self.toks().len() as int), toks_ok(r@)
enter:
        proof { lemma_sub_ok(self.toks(), self.cur(), self.toks().len() as int); }
@*/
/*@ fn src/parser/block_parser.rs BlockParser::consume_rest
tags C03 C05
ret r
spec:
        requires old(self).wf()
        ensures final(self).wf(), final(self).same(old(self)), final(self).evs() == old(self).evs(),
            final(self).cur() == old(self).toks().len(),
            r@ == old(self).toks().subrange(old(self).cur(), old(self).toks().len() as int), toks_ok(r@)
after `let r = self.rest();`:
        proof { broadcast use axiom_slice_len_bound; assert(self.tokens@.len() <= usize::MAX); }
@*/
/*@ fn src/parser/block_parser.rs BlockParser::peek
tags C03
ret r
spec:
        requires self.wf()
        ensures self.cur() < self.toks().len() ==> r == self.toks()[self.cur()].kind,
            self.cur() >= self.toks().len() ==> r == TokenKind::Eof
closure @ `|token| token.kind` `&Token` ret `k: TokenKind`:
        ensures k == token.kind
@*/
/*@ fn src/parser/block_parser.rs BlockParser::at
tags C03
ret r
spec:
        requires self.wf()
        ensures r == ((self.cur() < self.toks().len() && self.toks()[self.cur()].kind == kind) || (self.cur() >= self.toks().len() && kind == TokenKind::Eof))
@*/
/*@ fn src/parser/block_parser.rs BlockParser::next_token
tags C03 C05
ret r
spec:
        requires old(self).wf()
        ensures final(self).wf(), final(self).same(old(self)), final(self).evs() == old(self).evs(),
            r.is_some() ==> old(self).cur() < old(self).toks().len() && r.unwrap() == old(self).toks()[old(self).cur()] && final(self).cur() == old(self).cur() + 1,
            r.is_none() ==> final(self).cur() == old(self).cur() && old(self).cur() >= old(self).toks().len(),
enter:
        proof { broadcast use axiom_slice_len_bound; assert(self.tokens@.len() <= usize::MAX); }
@*/
/*@ fn src/parser/block_parser.rs BlockParser::bump_any
tags C03 C05
ret r
spec:
        requires old(self).wf(), old(self).cur() < old(self).toks().len()   // [C03] `expect` must not fire
        ensures final(self).wf(), final(self).same(old(self)), final(self).evs() == old(self).evs(),
            r == old(self).toks()[old(self).cur()], final(self).cur() == old(self).cur() + 1
@*/
/*@ fn src/parser/block_parser.rs BlockParser::bump
tags C03 C05
ret r
spec:
        requires old(self).wf(), old(self).cur() < old(self).toks().len(),
            old(self).toks()[old(self).cur()].kind == expected   // [C03] the kind assertion must hold
        ensures final(self).wf(), final(self).same(old(self)), final(self).evs() == old(self).evs(),
            r == old(self).toks()[old(self).cur()], final(self).cur() == old(self).cur() + 1
@*/
/*@ fn src/parser/block_parser.rs BlockParser::until
tags C03 C05
ret r
spec:
        requires old(self).wf(), forall|k: TokenKind| #[trigger] f.requires((k,)),
        ensures final(self).wf(), final(self).same(old(self)), final(self).evs() == old(self).evs(),
            r.is_none() ==> final(self).cur() == old(self).cur(),
            r.is_some() ==> old(self).cur() <= final(self).cur() < old(self).toks().len()
                && r.unwrap()@ == old(self).toks().subrange(old(self).cur(), final(self).cur()) && toks_ok(r.unwrap()@)
                && f.ensures((old(self).toks()[final(self).cur()].kind,), true)
                && forall|j: int| 0 <= j < final(self).cur() - old(self).cur() ==> f.ensures(((#[trigger] old(self).rest_spec()[j]).kind,), false),
closure @ `|t| f(t.kind)` `&Token` ret `b: bool`:
        requires f.requires((t.kind,)) ensures f.ensures((t.kind,), b)
after `let rest = self.rest();`:
        proof {
            broadcast use axiom_slice_len_bound; assert(self.tokens@.len() <= usize::MAX);
            lemma_vals_as_ref(rest@);
        }
after `let s = &rest[..pos];` or after `.position(|t| f(t.kind))?;`:
        proof { lemma_sub_ok(rest@, 0, pos as int); assert(rest@.subrange(0, pos as int) =~= self.toks().subrange(self.cur(), self.cur() + pos)); }
@*/
/*@ fn src/parser/block_parser.rs BlockParser::consume_while
tags C03 C05
ret s
spec:
        requires old(self).wf(), forall|k: TokenKind| #[trigger] f.requires((k,)),
        ensures final(self).wf(), final(self).same(old(self)), final(self).evs() == old(self).evs(),
            old(self).cur() <= final(self).cur() <= old(self).toks().len(),
            s@ == old(self).toks().subrange(old(self).cur(), final(self).cur()), toks_ok(s@),
            forall|j: int| 0 <= j < final(self).cur() - old(self).cur() ==> f.ensures(((#[trigger] old(self).rest_spec()[j]).kind,), true),
            final(self).cur() < old(self).toks().len() ==> f.ensures((old(self).toks()[final(self).cur()].kind,), false),
closure @ `|t| !f(t.kind)` `&Token` ret `b: bool`:
        requires f.requires((t.kind,)) ensures f.ensures((t.kind,), !b)
after `let rest = self.rest();`:
        proof {
            broadcast use axiom_slice_len_bound; assert(self.tokens@.len() <= usize::MAX);
            lemma_vals_as_ref(rest@);
        }
after `let s = &rest[..pos];` or after `.unwrap_or(rest.len());`:
        proof { lemma_sub_ok(rest@, 0, pos as int); assert(rest@.subrange(0, pos as int) =~= self.toks().subrange(self.cur(), self.cur() + pos)); }
@*/
/*@ fn src/parser/block_parser.rs BlockParser::ws_comments
tags C03 C05 C17
ret s
spec:
        requires old(self).wf()
        ensures final(self).wf(), final(self).same(old(self)), final(self).evs() == old(self).evs(),
            old(self).cur() <= final(self).cur() <= old(self).toks().len(),
            s@ == old(self).toks().subrange(old(self).cur(), final(self).cur()), toks_ok(s@),
            forall|j: int| 0 <= j < final(self).cur() - old(self).cur() ==> is_ws_comment((#[trigger] old(self).rest_spec()[j]).kind),    // [C05] only blank tokens are skipped
            final(self).cur() < old(self).toks().len() ==> !is_ws_comment(old(self).toks()[final(self).cur()].kind),
closure @ `|t| matches!(t, T![ws] | T![line comment] | T![block comment])` `TokenKind` ret `b: bool`:
        ensures b == is_ws_comment(t)
@*/
/*@ fn src/parser/block_parser.rs BlockParser::consume
tags C03 C05
ret r
spec:
        requires old(self).wf(), expected != TokenKind::Eof
        ensures final(self).wf(), final(self).same(old(self)), final(self).evs() == old(self).evs(),
            r.is_some() ==> old(self).cur() < old(self).toks().len() && r.unwrap() == old(self).toks()[old(self).cur()] && r.unwrap().kind == expected && final(self).cur() == old(self).cur() + 1,
            r.is_none() ==> final(self).cur() == old(self).cur() && !(old(self).cur() < old(self).toks().len() && old(self).toks()[old(self).cur()].kind == expected),
@*/
/*@ fn src/parser/block_parser.rs BlockParser::error
tags C03 C07
spec:
        requires error.sev() == crate::error::Severity::Error   // [C07] severity matches the event kind
        ensures final(self).same(old(self)), final(self).cur() == old(self).cur(), final(self).evs() == old(self).evs().push(Event::Error(error)),
            only_diags(final(self).evs(), old(self).evs())
after `self.event(Event::Error(error))`:
        ; proof { crate::parser_ev::lemma_grown_push(old(self).evs(), Event::Error(error)); }
@*/
/*@ fn src/parser/block_parser.rs BlockParser::warn
tags C03 C07
spec:
        requires warn.sev() == crate::error::Severity::Warning   // [C07]
        ensures final(self).same(old(self)), final(self).cur() == old(self).cur(), final(self).evs() == old(self).evs().push(Event::Warning(warn)),
            only_diags(final(self).evs(), old(self).evs())
after `self.event(Event::Warning(warn))`:
        ; proof { crate::parser_ev::lemma_grown_push(old(self).evs(), Event::Warning(warn)); }
@*/
}
} // verus!
} // mod block_parser

verus! {
pub open spec fn is_comment_kind(k: TokenKind) -> bool { k == TokenKind::LineComment || k == TokenKind::BlockComment }
pub open spec fn is_ws_comment(k: TokenKind) -> bool { k == TokenKind::Whitespace || k == TokenKind::LineComment || k == TokenKind::BlockComment }
// ---- src/parser/mod.rs (helpers) ----
/*@ fn src/parser/mod.rs tokens_span
tags C03 C04
ret r
spec:
    requires tokens@.len() > 0, toks_ok(tokens@)    // [C03]
    ensures r.s() == tokens@[0].span.s(), r.e() == tokens@.last().span.e(), r.ok()    // [C04]
before `let start = tokens.first().unwrap().span.start();`:
    proof { lemma_mono(tokens@, 0, tokens@.len() - 1); }
@*/
} // verus!

verus! {
/*@ macro src/parser/mod.rs error
@*/
/*@ macro src/parser/mod.rs warning
@*/
} // verus!

pub mod section {
use vstd::prelude::*;
use crate::*;
use crate::block_parser::BlockParser;
use crate::parser_ev::Event;
verus! {
broadcast use {crate::parser_ev::lemma_diags_trans, crate::parser_ev::lemma_grown_refl};
/*@ fn src/parser/section.rs section
tags C03 C04 C05 C07
ret r
attr #[verifier::spinoff_prover]
spec:
    requires old(block).wf(), old(block).cur() == 0,
    ensures final(block).wf(), final(block).same(old(block)),
        // [C05] a section event is returned only when the whole block was consumed, and then nothing else is emitted
        r.is_some() ==> final(block).cur() == final(block).toks().len() && final(block).evs() == old(block).evs() && r.unwrap() is Section,
        // [C05] a named section covers every letter and digit of the line (a blank name is dropped: see assumption on is_text_empty)
        r.is_some() && r.unwrap()->name.is_some() ==> covered_by(final(block).toks(), r.unwrap()),
        // [C07] the only diagnostic is one warning, exactly when something follows the closing `=`s
        r.is_none() ==> (final(block).evs() == old(block).evs() || (final(block).evs().len() == old(block).evs().len() + 1 && final(block).evs().last() is Warning)),
        only_diags(final(block).evs(), old(block).evs()),
closure 0 `TokenKind` ret `b: bool`:
        ensures b == (t == TokenKind::Eq)
closure @ `|t| t != T![=]` `TokenKind` ret `b: bool`:
        ensures b == (t != TokenKind::Eq)
closure 2 `TokenKind` ret `b: bool`:
        ensures b == (t == TokenKind::Eq)
after `block.consume_while(|t| t == T![=]);`#0:
    let ghost c1 = block.cur();
after `let name = block.text(name_pos, name_tokens);`:
    let ghost c2 = block.cur();
after `block.consume_while(|t| t == T![=]);`#1:
    let ghost c3 = block.cur();
after `block.ws_comments();`:
    let ghost c4 = block.cur();
before `let name = if name.is_text_empty() {`:
    proof {
        let ts = block.toks();
        assert(c4 == ts.len());
        if !name.blank() {
            let ev = Event::Section { name: Some(name) };
            assert forall|i: int| 0 <= i < ts.len() && content_kind((#[trigger] ts[i]).kind) && cs(ts[i]) < ts[i].span.e() implies ev_covers(ev, cs(ts[i]), ts[i].span.e()) by {
                if i < c1 { if i >= 1 { assert(old(block).rest_spec()[i] == ts[i]); assert(block.toks().subrange(1, ts.len() as int)[i - 1] == ts[i]); } }
                else if i < c2 { assert(name_tokens@[i - c1] == ts[i]); }
                else if i < c3 { assert(block.toks().subrange(c2, ts.len() as int)[i - c2] == ts[i]); }
                else { assert(block.toks().subrange(c3, ts.len() as int)[i - c3] == ts[i]); }
            }
        }
    }
@*/
} // verus!
} // mod section

pub mod metadata {
use vstd::prelude::*;
use crate::*;
use crate::block_parser::BlockParser;
use crate::parser_ev::Event;
verus! {
broadcast use {crate::parser_ev::lemma_diags_trans, crate::parser_ev::lemma_grown_refl};
/*@ fn src/parser/metadata.rs metadata_entry
tags C03 C04 C05 C07
ret r
inline or_else 0
attr #[verifier::spinoff_prover]
spec:
    requires old(block).wf(), old(block).cur() == 0,
    ensures final(block).wf(), final(block).same(old(block)),
        // [C05] an entry is returned only when the whole block was consumed
        r.is_some() ==> final(block).cur() == final(block).toks().len() && r.unwrap() is Metadata,
        r.is_some() ==> covered_by(final(block).toks(), r.unwrap()),      // [C05] key and value texts cover every letter and digit of the entry
        // [C07] at most one diagnostic is queued
        final(block).evs() == old(block).evs() || (final(block).evs().len() == old(block).evs().len() + 1 && (final(block).evs().last() is Warning || final(block).evs().last() is Error)),
        // [C07] an entry with a blank key is an error, a blank value (with a key) a warning, anything else is silent
        r.is_some() && r.unwrap()->key.blank() ==> final(block).evs().len() == old(block).evs().len() + 1 && final(block).evs().last() is Error,
        r.is_some() && !r.unwrap()->key.blank() && r.unwrap()->value.blank() ==> final(block).evs().len() == old(block).evs().len() + 1 && final(block).evs().last() is Warning,
        r.is_some() && !r.unwrap()->key.blank() && !r.unwrap()->value.blank() ==> final(block).evs() == old(block).evs(),
        only_diags(final(block).evs(), old(block).evs()),
closure @ `|t| t == T![:]` `TokenKind` ret `b: bool`:
        ensures b == (t == TokenKind::Colon)
after `let key = block.text(key_pos, key_tokens);`:
    let ghost kc = block.cur();
before `Some(Event::Metadata { key, value })`:
    proof {
        let ts = block.toks();
        let ev = Event::Metadata { key, value };
        assert forall|i: int| 0 <= i < ts.len() && content_kind((#[trigger] ts[i]).kind) && cs(ts[i]) < ts[i].span.e() implies ev_covers(ev, cs(ts[i]), ts[i].span.e()) by {
            if 1 <= i < kc { assert(key_tokens@[i - 1] == ts[i]); }
            else if i > kc { assert(value_tokens@[i - kc - 1] == ts[i]); }
        }
    }
@*/
} // verus!
} // mod metadata

pub mod text_block {
use vstd::prelude::*;
use crate::*;
use crate::block_parser::BlockParser;
use crate::parser_ev::{Event, BlockKind};
verus! {
broadcast use {crate::parser_ev::lemma_diags_trans, crate::parser_ev::lemma_grown_refl};
/*@ fn src/parser/text_block.rs parse_text_block
tags C03 C04 C05
inline and_then 0
attr #[verifier::spinoff_prover]
spec:
    requires old(bp).wf(),
    ensures final(bp).wf(), final(bp).same(old(bp)),
        final(bp).cur() == final(bp).toks().len(),    // [C05] the whole block is consumed
        ev_grown(final(bp).evs(), old(bp).evs()),
        // [C03] what build_ast relies on: a text paragraph is Start(Text), then only Text events, then End(Text)
        final(bp).evs().len() >= old(bp).evs().len() + 2,
        final(bp).evs()[old(bp).evs().len() as int] matches Event::Start(BlockKind::Text),
        final(bp).evs().last() matches Event::End(BlockKind::Text),
        forall|k: int| old(bp).evs().len() < k < final(bp).evs().len() - 1 ==> (#[trigger] final(bp).evs()[k]) is Text,
        no_meta_since(final(bp).evs(), old(bp).evs().len() as int),     // [C02]
after `bp.event(Event::Start(BlockKind::Text));`:
    proof { lemma_grown_push(old(bp).evs(), Event::Start(BlockKind::Text)); }
loop 0:
        invariant bp.wf(), bp.same(old(bp)), ev_grown(bp.evs(), old(bp).evs()),
            bp.evs().len() >= old(bp).evs().len() + 1, bp.evs()[old(bp).evs().len() as int] matches Event::Start(BlockKind::Text),
            forall|k: int| old(bp).evs().len() < k < bp.evs().len() ==> (#[trigger] bp.evs()[k]) is Text,
        decreases bp.toks().len() - bp.cur()
before `let tokens = bp.capture_slice(|bp| {`:
        // (a closure inside a loop cannot use old() on its own &mut parameter in this Verus version:
        //  its contract is stated against a ghost snapshot taken right before the call)
        let ghost pre = *bp;
closure @ `|bp| {` `&mut BlockParser` :
        requires *old(bp) == pre, pre.wf() ensures final(bp).wf(), final(bp).same(&pre), final(bp).cur() >= pre.cur(),
            final(bp).evs() == pre.evs(),
            pre.cur() < pre.toks().len() ==> final(bp).cur() > pre.cur()
closure @ `|t| t != T![newline]` `TokenKind` ret `b: bool`:
        ensures b == (t != TokenKind::Newline)
after `let text = bp.text(start, tokens);`:
        let ghost m = *bp;
after `bp.event(Event::Text(text));`:
            proof { lemma_grown_push(m.evs(), Event::Text(text)); lemma_grown_trans(bp.evs(), m.evs(), old(bp).evs()); }
before `bp.event(Event::End(BlockKind::Text));`:
    let ghost fin = *bp;
after `bp.event(Event::End(BlockKind::Text));`:
    proof { lemma_grown_push(fin.evs(), Event::End(BlockKind::Text)); lemma_grown_trans(bp.evs(), fin.evs(), old(bp).evs()); }
@*/
} // verus!
} // mod text_block

pub mod quantity_parser {
use vstd::prelude::*;
use crate::*;
use crate::block_parser::BlockParser;
use crate::parser_model::*;
use crate::located::{Located, Recover};
use crate::span::Span;
use crate::error::SourceDiag;
use crate::quantity::{Value, Number};
verus! {
broadcast use {crate::parser_ev::lemma_diags_trans, crate::parser_ev::lemma_grown_refl};
/*@ type src/parser/quantity.rs ParsedQuantity
derive
@*/
pub open spec fn pq_ok<'a>(r: ParsedQuantity<'a>) -> bool {
    &&& r.quantity.sp().ok()
    &&& (r.unit_separator.is_some() ==> r.unit_separator.unwrap().ok())
    &&& (r.quantity.val().unit.is_some() ==> r.quantity.val().unit.unwrap().wf() && gbnd(r.quantity.val().unit.unwrap().start_spec()) && gbnd(r.quantity.val().unit.unwrap().end_spec())
            && (r.unit_separator.is_some() ==> r.unit_separator.unwrap().s() <= r.quantity.val().unit.unwrap().end_spec()))
    &&& r.quantity.val().value.value.sp().ok()
}
// the sub-parser is created over bp's own input, events and extensions; its event queue is a reborrow of bp's, which is
// followed through the prophetic `fin()` (the queue at the moment the temporary block parser dies)
/*@ fn src/parser/quantity.rs parse_quantity
tags C03 C04 C07
ret r
inline then 0
inline unwrap_or_else 0
spec:
    requires old(bp).wf(), tokens@.len() > 0, toks_ok(tokens@),
    ensures final(bp).wf(), final(bp).same(old(bp)), final(bp).cur() == old(bp).cur(),
        only_diags(final(bp).evs(), old(bp).evs()), pq_ok(r),     // [C04] [C07]
enter:
    broadcast use BlockParser::lemma_resolved;
before `let mut bp2 = BlockParser::new(tokens, bp.input, bp.events, bp.extensions);`:
    proof { lemma_tok(tokens@, 0); broadcast use axiom_str_len_bound; }
@*/
// ASSUMED leaf parsers (str::parse and slice patterns are outside the verifier)
/*@ fn src/parser/quantity.rs int stub
ret r
spec:
    requires block.wf(), tok.kind == TokenKind::Int    // [C03] the kind assertion
    ensures r is Err ==> r->Err_0.sev() == crate::error::Severity::Error
@*/
/*@ fn src/parser/quantity.rs float stub
ret r
spec:
    requires bp.wf(), tokens@.len() > 0, toks_ok(tokens@)
    ensures r is Err ==> r->Err_0.sev() == crate::error::Severity::Error
@*/
/*@ fn src/parser/quantity.rs numeric_value stub
ret r
spec:
    requires bp.wf(), toks_ok(tokens@)
    ensures r.is_some() && r.unwrap() is Ok ==> r.unwrap()->Ok_0 is Number,
        r.is_some() && r.unwrap() is Err ==> r.unwrap()->Err_0.sev() == crate::error::Severity::Error,
@*/
/*@ fn src/parser/quantity.rs not_ws_comment
tags C03 C17
ret r
spec:
    ensures r == !is_ws_comment(t.kind)
@*/
/*@ fn src/parser/quantity.rs trim_tokens
tags C03 C17
ret r
spec:
    requires toks_ok(s@)
    ensures toks_ok(r@), r@.len() <= s@.len(),
        exists|a: int, b: int| 0 <= a <= b <= s@.len() && r@ == s@.subrange(a, b),
        // [C17] only whitespace/comment tokens are trimmed, and the result does not start or end with one
        r@.len() > 0 ==> !is_ws_comment(r@[0].kind) && !is_ws_comment(r@.last().kind),
        r@.len() == 0 ==> forall|i: int| 0 <= i < s@.len() ==> is_ws_comment((#[trigger] s@[i]).kind),
enter:
    proof { lemma_vals_as_ref(s@); lemma_sub_ok(s@, 0, 0); assert(s@.subrange(0, 0) =~= Seq::<Token>::empty()); }
after `let to = s.iter().rposition(not_ws_comment).unwrap();`:
    proof { lemma_sub_ok(s@, from as int, to as int + 1); }
@*/
/*@ fn src/parser/quantity.rs frac
tags C03 C04 C07
ret r
spec:
    requires line.wf(), a.kind == TokenKind::Int, b.kind == TokenKind::Int,
        exists|i: int, j: int| 0 <= i <= j < line.toks().len() && line.toks()[i] == a && line.toks()[j] == b,
    ensures r is Ok ==> r->Ok_0 is Fraction && r->Ok_0->den != 0 && r->Ok_0->whole == 0,     // [C07] a zero denominator is never accepted
        r is Err ==> r->Err_0.sev() == crate::error::Severity::Error,
enter:
    proof {
        let (i, j) = choose|i: int, j: int| 0 <= i <= j < line.toks().len() && line.toks()[i] == a && line.toks()[j] == b;
        lemma_mono(line.toks(), i, j); lemma_tok(line.toks(), i); lemma_tok(line.toks(), j);
    }
@*/
/*@ fn src/parser/quantity.rs text_value
tags C03 C04 C07
ret r
spec:
    requires old(bp).wf(), toks_ok(tokens@), gbnd(offset as int), tokens@.len() > 0 ==> offset == tokens@[0].span.s(),
    ensures final(bp).wf(), final(bp).same(old(bp)), final(bp).cur() == old(bp).cur(), only_diags(final(bp).evs(), old(bp).evs()),
        r is Text,
@*/
/*@ fn src/parser/quantity.rs mixed_num
tags C03 C04 C07
ret r
spec:
    requires bp.wf(), i.kind == TokenKind::Int, a.kind == TokenKind::Int, b.kind == TokenKind::Int,
        exists|x: int, y: int| 0 <= x <= y < bp.toks().len() && bp.toks()[x] == a && bp.toks()[y] == b,
    ensures r is Ok ==> r->Ok_0 is Fraction && r->Ok_0->den != 0,     // [C07] a zero denominator is never accepted
        r is Err ==> r->Err_0.sev() == crate::error::Severity::Error,
@*/
/*@ fn src/parser/quantity.rs range_value
tags C03 C02 C07
ret r
spec:
    requires bp.wf(), toks_ok(tokens@),
    ensures
        // [C02] with the range extension off `2-3` is never read as a range
        !bp.ext().has(Extensions::RANGE_VALUES) ==> r.is_none(),
        // [C02] without a `-` token the value is never read as a range
        (forall|i: int| 0 <= i < tokens@.len() ==> (#[trigger] tokens@[i]).kind != TokenKind::Minus) ==> r.is_none(),
        r.is_some() && r.unwrap() is Ok ==> r.unwrap()->Ok_0 is Range,
        r.is_some() && r.unwrap() is Err ==> r.unwrap()->Err_0.sev() == crate::error::Severity::Error,
closure @ `|t| t.kind == T![-]` `&Token` ret `b: bool`:
        ensures b == (t.kind == TokenKind::Minus)
before `let mid = tokens.iter().position(|t| t.kind == T![-])?;`:
    proof { lemma_vals_as_ref(tokens@); }
after `let (start, end) = tokens.split_at(mid);`:
    proof { lemma_sub_ok(tokens@, 0, mid as int); lemma_sub_ok(tokens@, mid as int, tokens@.len() as int);
            assert(start@ =~= tokens@.subrange(0, mid as int)); assert(end@ =~= tokens@.subrange(mid as int, tokens@.len() as int)); }
    let ghost end0 = end@;
after `let (_mid, end) = end.split_first().unwrap();`:
    proof { lemma_sub_ok(end0, 1, end0.len() as int); assert(end@ =~= end0.subrange(1, end0.len() as int)); }
@*/
/*@ fn src/parser/quantity.rs parse_value
tags C03 C04 C07
ret r
inline or_else 0
inline unwrap_or_else 0
spec:
    requires old(bp).wf(), toks_ok(tokens@),
        tokens@ == old(bp).toks().subrange(old(bp).cur() - tokens@.len(), old(bp).cur()), tokens@.len() <= old(bp).cur(),
    ensures final(bp).wf(), final(bp).same(old(bp)), final(bp).cur() == old(bp).cur(), only_diags(final(bp).evs(), old(bp).evs()),
        r.sp().ok(),     // [C04]
closure @ `|t| t.span.start()` `&Token` ret `e: usize`:
        ensures e == t.span.s()
enter:
    proof {
        lemma_off_mono(bp.toks(), bp.cur() - tokens@.len(), bp.cur());
        if tokens@.len() > 0 { assert(tokens@[0] == bp.toks()[bp.cur() - tokens@.len()]); lemma_tok(tokens@, 0); }
    }
@*/
/*@ fn src/parser/quantity.rs value
tags C03 C04 C05
ret r
spec:
    requires old(bp).wf(),
    ensures final(bp).wf(), final(bp).same(old(bp)), final(bp).cur() >= old(bp).cur(), only_diags(final(bp).evs(), old(bp).evs()),
        r.value.sp().ok(), r.scaling_lock.is_some() ==> r.scaling_lock.unwrap().ok(),
        final(bp).cur() < final(bp).toks().len() ==> final(bp).toks()[final(bp).cur()].kind == TokenKind::Percent,
closure @ `|t| !matches!(t, T![%])` `TokenKind` ret `b: bool`:
        ensures b == (t != TokenKind::Percent)
@*/
/*@ fn src/parser/quantity.rs parse_regular_quantity
tags C03 C04 C07
ret r
attr #[verifier::spinoff_prover]
spec:
    requires old(bp).wf(), old(bp).cur() == 0,
    ensures final(bp).wf(), final(bp).same(old(bp)), only_diags(final(bp).evs(), old(bp).evs()),
        pq_ok(r),     // [C04] every span of the parsed quantity is a reportable location
closure @ `|t| t != T![%]` `TokenKind` ret `b: bool`:
        ensures b == (t != TokenKind::Percent)
before `let text = bp.text(bp.span().start(), bp.parsed());`:
            proof { lemma_sub_ok(bp.toks(), 0, bp.cur()); lemma_tok(bp.toks(), 0); }
after `let sep = bp.bump_any();`:
            proof { lemma_tok(bp.toks(), bp.cur() - 1); }
after `if let Some(sep) = bp.consume(T![%]) {`:
                proof { lemma_tok(bp.toks(), bp.cur() - 1); }
@*/
/*@ fn src/parser/quantity.rs parse_advanced_quantity
tags C03 C04 C07 C02
ret r
inline or_else 0
attr #[verifier::spinoff_prover]
spec:
    requires old(bp).wf(), old(bp).cur() == 0,
    ensures final(bp).wf(), final(bp).same(old(bp)), only_diags(final(bp).evs(), old(bp).evs()),
        // [C02] a quantity written with the `%` separator is never reinterpreted by the advanced-units path
        (exists|i: int| 0 <= i < old(bp).toks().len() && (#[trigger] old(bp).toks()[i]).kind == TokenKind::Percent) ==> r.is_none() && final(bp).evs() == old(bp).evs(),
        r.is_some() ==> pq_ok(r.unwrap()),     // [C04]
closure @ `|t| matches!(t.kind, T![%])` `&Token` ret `b: bool`:
        ensures b == (t.kind == TokenKind::Percent)
closure @ `|t| !matches!(t, T![word])` `TokenKind` ret `b: bool`:
        ensures b == (t != TokenKind::Word)
closure @ `|t| !matches!(t.kind, T![ws] | T![block comment])` `&Token` ret `b: bool`:
        ensures b == !(t.kind == TokenKind::Whitespace || t.kind == TokenKind::BlockComment)
before `let value_tokens = bp.consume_while(|t| !matches!(t, T![word]));`:
    let ghost c0 = bp.cur();
after `let value_tokens = bp.consume_while(|t| !matches!(t, T![word]));`:
    let ghost vt0 = value_tokens@;
    let ghost c1 = bp.cur();
    proof { if vt0.len() > 0 { assert(vt0[0] == bp.toks()[c0]); } }
before `let unit_tokens = bp.consume_rest();`:
    proof {
        let n = value_tokens@.len() as int;
        lemma_sub_ok(vt0, 0, n); assert(value_tokens@ =~= vt0.subrange(0, n));
        lemma_mono(value_tokens@, 0, n - 1); lemma_tok(value_tokens@, 0); lemma_tok(value_tokens@, n - 1);
    }
after `let unit_tokens = bp.consume_rest();`:
    proof { if unit_tokens@.len() > 0 { lemma_tok(unit_tokens@, 0); } }
@*/
/*@ fn src/parser/quantity.rs scaling_lock
tags C03 C04 C05
ret r
spec:
    requires old(bp).wf()
    ensures final(bp).wf(), final(bp).same(old(bp)), final(bp).evs() == old(bp).evs(), final(bp).cur() >= old(bp).cur(),
        r.is_some() ==> r.unwrap().ok() && final(bp).cur() > old(bp).cur(),
@*/
} // verus!
} // mod quantity_parser

pub mod step {
use vstd::prelude::*;
use vstd::std_specs::iter::IteratorSpec;
use crate::*;
use crate::block_parser::BlockParser;
use crate::parser_ev::{Event, BlockKind};
use crate::parser_model::*;
use crate::located::{Located, Recover};
use crate::text::Text;
use crate::span::Span;
use crate::quantity_parser::parse_quantity;
verus! {
broadcast use {crate::parser_ev::lemma_diags_trans, crate::parser_ev::lemma_grown_refl};
/*@ type src/parser/step.rs Body
derive
@*/
/*@ type src/parser/step.rs ParsedModifiers
derive
@*/
/*@ const src/parser/step.rs INGREDIENT
rewrite `&str` => `&'static str`
@*/
/*@ const src/parser/step.rs COOKWARE
rewrite `&str` => `&'static str`
@*/
/*@ const src/parser/step.rs TIMER
rewrite `&str` => `&'static str`
@*/

proof fn lemma_names()
    ensures TIMER@ != INGREDIENT@, TIMER@ != COOKWARE@, COOKWARE@ != INGREDIENT@
{
    reveal_strlit("timer"); reveal_strlit("ingredient"); reveal_strlit("cookware");
    assert(TIMER@.len() == 5); assert(INGREDIENT@.len() == 10); assert(COOKWARE@.len() == 8);
}
pub open spec fn is_marker(k: TokenKind) -> bool { k == TokenKind::At || k == TokenKind::Hash || k == TokenKind::Tilde }

/*@ fn src/parser/step.rs check_modifiers
tags C03 C04 C07
spec:
    requires old(bp).wf(), toks_ok(modifiers_tokens@), container@ != INGREDIENT@, container@ != COOKWARE@,
    ensures final(bp).wf(), final(bp).same(old(bp)), final(bp).cur() == old(bp).cur(),
        // [C07] one error exactly when modifiers are present
        modifiers_tokens@.len() == 0 ==> final(bp).evs() == old(bp).evs(),
        modifiers_tokens@.len() > 0 ==> final(bp).evs().len() == old(bp).evs().len() + 1 && final(bp).evs().last() is Error,
        only_diags(final(bp).evs(), old(bp).evs()),
@*/
/*@ fn src/parser/step.rs check_intermediate_data
tags C03 C04 C07
ret r
spec:
    requires old(bp).wf(), container@ != INGREDIENT@,
        parsed_modifiers.intermediate_data.is_some() ==> parsed_modifiers.intermediate_data.unwrap().sp().ok(),
    ensures final(bp).wf(), final(bp).same(old(bp)), final(bp).cur() == old(bp).cur(),
        r == parsed_modifiers.flags, only_diags(final(bp).evs(), old(bp).evs()),
        // [C07] exactly one error, exactly when an intermediate preparation reference is written on something that is not an ingredient
        parsed_modifiers.intermediate_data.is_none() ==> final(bp).evs() == old(bp).evs(),     // [C07]
        parsed_modifiers.intermediate_data.is_some() ==> final(bp).evs().len() == old(bp).evs().len() + 1 && final(bp).evs().last() is Error,     // [C07]
@*/
/*@ fn src/parser/step.rs check_empty_name
tags C03 C04 C07
spec:
    requires old(bp).wf(), name.wf(), gbnd(name.start_spec()), gbnd(name.end_spec()),
    ensures final(bp).wf(), final(bp).same(old(bp)), final(bp).cur() == old(bp).cur(),
        // [C07] one error exactly when the name is blank
        !name.blank() ==> final(bp).evs() == old(bp).evs(),
        name.blank() ==> final(bp).evs().len() == old(bp).evs().len() + 1 && final(bp).evs().last() is Error,
        only_diags(final(bp).evs(), old(bp).evs()),
@*/
/*@ fn src/parser/step.rs check_alias
tags C03 C04 C07 C02
spec:
    requires old(bp).wf(), toks_ok(name_tokens@), container@ != INGREDIENT@, container@ != COOKWARE@,
    ensures final(bp).wf(), final(bp).same(old(bp)), final(bp).cur() == old(bp).cur(),
        // [C02] with the alias extension off nothing is checked or reported
        !old(bp).ext().has(Extensions::COMPONENT_ALIAS) ==> final(bp).evs() == old(bp).evs(),
        // [C07] one error exactly when the extension is on and the name contains a `|`
        final(bp).evs() == old(bp).evs() || (final(bp).evs().len() == old(bp).evs().len() + 1 && final(bp).evs().last() is Error),
        old(bp).ext().has(Extensions::COMPONENT_ALIAS) && (exists|i: int| 0 <= i < name_tokens@.len() && (#[trigger] name_tokens@[i]).kind == TokenKind::Or)
            ==> final(bp).evs().len() == old(bp).evs().len() + 1 && final(bp).evs().last() is Error,
        (forall|i: int| 0 <= i < name_tokens@.len() ==> (#[trigger] name_tokens@[i]).kind != TokenKind::Or) ==> final(bp).evs() == old(bp).evs(),
        only_diags(final(bp).evs(), old(bp).evs()),
closure @ `|t| t.kind == T![|]` `&Token` ret `b: bool`:
        ensures b == (t.kind == TokenKind::Or)
before `if let Some(sep) = name_tokens.iter().position(`:
    proof { lemma_vals_as_ref(name_tokens@); }
before `let to_remove = Span::new(`:
        proof { lemma_mono(name_tokens@, sep as int, name_tokens@.len() - 1); }
@*/
/*@ fn src/parser/step.rs check_note
tags C03 C04 C07
hoist 0
spec:
    requires old(bp).wf(), old(bp).cur() >= 1, container@ != INGREDIENT@, container@ != COOKWARE@,
    ensures final(bp).wf(), final(bp).same(old(bp)), final(bp).cur() == old(bp).cur(),    // [C05] the note is never consumed: it stays text
        final(bp).evs() == old(bp).evs() || (final(bp).evs().len() == old(bp).evs().len() + 1 && final(bp).evs().last() is Warning),
        only_diags(final(bp).evs(), old(bp).evs()),
closure @ `|bp| {` `&mut BlockParser` ret `o: Option<()>`:
        requires old(bp).wf(), old(bp).cur() >= 1
        ensures final(bp).wf(), final(bp).same(old(bp)), o.is_none(),
            final(bp).evs() == old(bp).evs() || (final(bp).evs().len() == old(bp).evs().len() + 1 && final(bp).evs().last() is Warning),
            only_diags(final(bp).evs(), old(bp).evs()),
closure @ `|t| t == T![')']` `TokenKind` ret `b: bool`:
        ensures b == (t == TokenKind::CloseParen)
before `bp.warn(`:
            proof { lemma_mono(bp.toks(), old(bp).cur(), bp.cur() - 1); }
@*/
proof fn lemma_modifier_bits()
    ensures Modifiers::RECIPE.bits == 1, Modifiers::REF.bits == 2, Modifiers::HIDDEN.bits == 4, Modifiers::OPT.bits == 8, Modifiers::NEW.bits == 16
{
    assert(1u16 << 0 == 1) by (bit_vector); assert(1u16 << 1 == 2) by (bit_vector); assert(1u16 << 2 == 4) by (bit_vector);
    assert(1u16 << 3 == 8) by (bit_vector); assert(1u16 << 4 == 16) by (bit_vector);
}
proof fn lemma_or_recipe(a: u16, b: u16)
    ensures ((a | b) & 1 == 1) == ((a & 1 == 1) || (b & 1 == 1)), 0u16 & 1 != 1, 2u16 & 1 != 1, 4u16 & 1 != 1, 8u16 & 1 != 1, 16u16 & 1 != 1, 1u16 & 1 == 1
{
    assert(((a | b) & 1 == 1) == ((a & 1 == 1) || (b & 1 == 1))) by (bit_vector);
    assert(0u16 & 1 != 1) by (bit_vector); assert(2u16 & 1 != 1) by (bit_vector); assert(4u16 & 1 != 1) by (bit_vector);
    assert(8u16 & 1 != 1) by (bit_vector); assert(16u16 & 1 != 1) by (bit_vector); assert(1u16 & 1 == 1) by (bit_vector);
}
pub open spec fn inter_data_ok(o: Option<Located<IntermediateData>>) -> bool { o.is_some() ==> o.unwrap().sp().ok() }
/// a modifier character
pub open spec fn mod_marker(k: TokenKind) -> bool { k == TokenKind::At || k == TokenKind::Question || k == TokenKind::Plus || k == TokenKind::Minus || k == TokenKind::And }
/// s[j] is the first `)` after position i
pub open spec fn close_at(s: Seq<Token>, i: int, j: int) -> bool {
    i < j < s.len() && s[j].kind == TokenKind::CloseParen && forall|k: int| i < k < j ==> (#[trigger] s[k]).kind != TokenKind::CloseParen
}
/// the modifier tokens of a component, from index i: modifier characters, a `&` optionally followed (only with the
/// intermediate-preparations extension) by a complete parenthesised group
pub open spec fn mods_ok(s: Seq<Token>, i: int, inter: bool) -> bool
    decreases s.len() - i
{
    if i >= s.len() { i == s.len() }
    else if !mod_marker(s[i].kind) { false }
    else if s[i].kind == TokenKind::And && i + 1 < s.len() && s[i + 1].kind == TokenKind::OpenParen {
        inter && exists|j: int| #[trigger] close_at(s, i + 1, j) && mods_ok(s, j + 1, inter)
    } else { mods_ok(s, i + 1, inter) }
}
pub proof fn lemma_close_unique(s: Seq<Token>, i: int, j1: int, j2: int)
    requires close_at(s, i, j1), close_at(s, i, j2) ensures j1 == j2
{ if j1 < j2 { assert(s[j1].kind != TokenKind::CloseParen); } if j2 < j1 { assert(s[j2].kind != TokenKind::CloseParen); } }
pub proof fn lemma_close_shift(ts: Seq<Token>, start: int, i: int, j: int)
    requires 0 <= start <= i, close_at(ts, i, j)
    ensures close_at(ts.subrange(start, ts.len() as int), i - start, j - start)
{
    let r = ts.subrange(start, ts.len() as int);
    assert forall|k: int| i - start < k < j - start implies (#[trigger] r[k]).kind != TokenKind::CloseParen by { assert(r[k] == ts[k + start]); }
}
/// one modifier element occupies [a, b) of s
pub open spec fn elem_ok(s: Seq<Token>, a: int, b: int, inter: bool) -> bool {
    0 <= a < b <= s.len() && mod_marker(s[a].kind)
    && (b == a + 1 || (s[a].kind == TokenKind::And && inter && a + 1 < s.len() && s[a + 1].kind == TokenKind::OpenParen && close_at(s, a + 1, b - 1)))
}
pub proof fn lemma_elem_trunc(s: Seq<Token>, n: int, a: int, b: int, inter: bool)
    requires elem_ok(s, a, b, inter), b <= n <= s.len()
    ensures elem_ok(s.subrange(0, n), a, b, inter)
{
    let t = s.subrange(0, n);
    if b != a + 1 {
        assert forall|k: int| a + 1 < k < b - 1 implies (#[trigger] t[k]).kind != TokenKind::CloseParen by { assert(t[k] == s[k]); }
    }
}
/// cuts = start offsets of the elements plus the end; every element is well formed and a single `&` is never directly
/// followed by `(` unless it is the last token
pub open spec fn cuts_ok(s: Seq<Token>, cuts: Seq<int>, inter: bool) -> bool {
    cuts.len() >= 1 && cuts[0] == 0 && cuts.last() == s.len()
    && forall|k: int| 0 <= k < cuts.len() - 1 ==> elem_ok(s, #[trigger] cuts[k], cuts[k + 1], inter)
}
pub proof fn lemma_cuts_mods(s: Seq<Token>, cuts: Seq<int>, k: int, inter: bool)
    requires cuts_ok(s, cuts, inter), 0 <= k < cuts.len()
    ensures mods_ok(s, cuts[k], inter)
    decreases cuts.len() - k
{
    if k == cuts.len() - 1 { }
    else {
        lemma_cuts_mods(s, cuts, k + 1, inter);
        let a = cuts[k]; let b = cuts[k + 1];
        assert(elem_ok(s, a, b, inter));
        assert(mods_ok(s, b, inter));
        if b == a + 1 {
            if s[a].kind == TokenKind::And && a + 1 < s.len() && s[a + 1].kind == TokenKind::OpenParen {
                // the next element starts at a + 1, so s[a + 1] is a modifier character, not `(`
                assert(k + 1 < cuts.len() - 1);
                assert(elem_ok(s, cuts[k + 1], cuts[k + 2], inter));
                assert(false);
            }
            assert(mods_ok(s, a, inter));
        } else {
            assert(close_at(s, a + 1, b - 1));
            assert(mods_ok(s, (b - 1) + 1, inter));
            assert(mods_ok(s, a, inter));
        }
    }
}
/*@ fn src/parser/step.rs note
tags C03 C04 C05
ret r
spec:
    requires old(bp).wf(),
    ensures final(bp).wf(), final(bp).same(old(bp)), final(bp).evs() == old(bp).evs(),
        r.is_none() ==> final(bp).cur() == old(bp).cur(),
        r.is_some() ==> final(bp).cur() > old(bp).cur() && r.unwrap().wf() && gbnd(r.unwrap().start_spec()) && gbnd(r.unwrap().end_spec()),
closure @ `|line| {` `&mut BlockParser<'_, 'i>` ret `o: Option<Text<'i>>`:
        requires old(line).wf()
        ensures final(line).wf(), final(line).same(old(line)), final(line).evs() == old(line).evs(),
            o.is_some() ==> final(line).cur() > old(line).cur() && o.unwrap().wf() && gbnd(o.unwrap().start_spec()) && gbnd(o.unwrap().end_spec()),
closure @ `|t| t == T![')']` `TokenKind` ret `b: bool`:
        ensures b == (t == TokenKind::CloseParen)
@*/
/*@ fn src/parser/step.rs modifiers
tags C03 C05 C02
ret r
attr #[verifier::spinoff_prover]
spec:
    requires old(bp).wf(),
    ensures final(bp).wf(), final(bp).same(old(bp)), final(bp).evs() == old(bp).evs(),
        old(bp).cur() <= final(bp).cur(),
        r@ == old(bp).toks().subrange(old(bp).cur(), final(bp).cur()), toks_ok(r@),
        // [C02] with the modifiers extension off nothing is consumed
        !old(bp).ext().has(Extensions::COMPONENT_MODIFIERS) ==> r@.len() == 0 && final(bp).cur() == old(bp).cur(),
        // [C03] what parse_modifiers relies on: only modifier characters, `&` optionally followed by a complete `( .. )` group
        mods_ok(r@, 0, old(bp).ext().has(Extensions::INTERMEDIATE_PREPARATIONS)),
enter:
    hide(toks_ok);
?before `return &[];`:
        proof { assert(old(bp).toks().subrange(old(bp).cur(), old(bp).cur()) =~= Seq::<Token>::empty()); lemma_sub_ok(old(bp).toks(), old(bp).cur(), old(bp).cur());
                let e: &[Token] = &[]; assert(e@ =~= Seq::<Token>::empty()); }
after `let start = bp.current;`:
    let ghost inter = bp.ext().has(Extensions::INTERMEDIATE_PREPARATIONS);
    let ghost rest = bp.toks().subrange(start as int, bp.toks().len() as int);
    let ghost mut cuts: Seq<int> = seq![0int];
loop 0:
        invariant bp.wf(), bp.same(old(bp)), bp.evs() == old(bp).evs(), start == old(bp).cur(), start <= bp.cur(),
            inter == bp.ext().has(Extensions::INTERMEDIATE_PREPARATIONS),
            rest == bp.toks().subrange(start as int, bp.toks().len() as int),
            cuts.len() >= 1, cuts[0] == 0, cuts.last() == bp.cur() - start,
            forall|k: int| 0 <= k < cuts.len() ==> 0 <= #[trigger] cuts[k] <= cuts.last(),
            forall|k: int| 0 <= k < cuts.len() - 1 ==> elem_ok(rest, #[trigger] cuts[k], cuts[k + 1], inter),
        decreases bp.toks().len() - bp.cur()
loopbody 0:
        let ghost c0 = bp.cur();
        let ghost cuts0 = cuts;
        proof { if c0 < bp.toks().len() { assert(rest[c0 - start] == bp.toks()[c0]); } }
after `T![@] | T![?] | T![+] | T![-] => {<NL>                bp.bump_any();`:
                proof { cuts = cuts0.push(bp.cur() - start); }
before `bp.with_recover(|bp| {`:
                    let ghost pre = *bp;
closure @ `|bp| {` `&mut BlockParser` ret `o: Option<()>`:
        requires *old(bp) == pre, pre.wf()
        ensures final(bp).wf(), final(bp).same(&pre), final(bp).evs() == pre.evs(), final(bp).cur() >= pre.cur(),
            o.is_some() ==> pre.cur() < pre.toks().len() && pre.toks()[pre.cur()].kind == TokenKind::OpenParen
                && close_at(pre.toks(), pre.cur(), final(bp).cur() - 1),
closure @ `|t| t == T![')']` `TokenKind` ret `b: bool`:
        ensures b == (t == TokenKind::CloseParen)
before `let _intermediate = bp.until(|t| t == T![')'])?;`:
                        let ghost u0 = *bp;
after `let _intermediate = bp.until(|t| t == T![')'])?;`:
                        proof {
                            let p = bp.cur();
                            assert forall|k: int| pre.cur() < k < p implies (#[trigger] bp.toks()[k]).kind != TokenKind::CloseParen by {
                                assert(u0.rest_spec()[k - u0.cur()] == bp.toks()[k]);
                            }
                        }
after `Some(())<NL>                    });<NL>                }`:
                proof {
                    if bp.cur() > c0 + 1 { lemma_close_shift(bp.toks(), start as int, c0 + 1, bp.cur() - 1); }
                    cuts = cuts0.push(bp.cur() - start);
                }
before `&bp.tokens()[start..bp.current]`:
    proof {
        lemma_sub_ok(bp.toks(), start as int, bp.cur());
        let sl = bp.toks().subrange(start as int, bp.cur());
        assert forall|k: int| 0 <= k < cuts.len() - 1 implies elem_ok(sl, #[trigger] cuts[k], cuts[k + 1], inter) by {
            assert(elem_ok(rest, cuts[k], cuts[k + 1], inter));
            assert(cuts[k + 1] <= cuts.last());
            lemma_elem_trunc(rest, sl.len() as int, cuts[k], cuts[k + 1], inter);
            assert(rest.subrange(0, sl.len() as int) =~= sl);
        }
        lemma_cuts_mods(sl, cuts, 0, inter);
    }
@*/
impl<'t> Body<'t> {
    /// what comp_body promises about a parsed component body that started at token `c0` of `ts`
    spec fn ok(&self, ts: Seq<Token>, c0: int) -> bool {
        &&& self.name@ == ts.subrange(c0, c0 + self.name@.len()) && c0 + self.name@.len() <= ts.len() && toks_ok(self.name@)
        &&& (self.close.is_some() ==> self.close.unwrap().ok() && cur_off(ts, c0) <= self.close.unwrap().s())
        &&& (self.quantity.is_some() ==> self.quantity.unwrap()@.len() > 0 && toks_ok(self.quantity.unwrap()@))
    }
}
/*@ fn src/parser/step.rs comp_body
tags C03 C04 C05 C07
ret r
inline or_else 0
attr #[verifier::spinoff_prover]
spec:
    requires old(bp).wf(),
    ensures final(bp).wf(), final(bp).same(old(bp)),
        r.is_none() ==> final(bp).cur() == old(bp).cur(),    // [C05] a failed body gives every token back
        r.is_some() ==> final(bp).cur() > old(bp).cur() && r.unwrap().ok(old(bp).toks(), old(bp).cur()),
        final(bp).evs() == old(bp).evs() || (final(bp).evs().len() == old(bp).evs().len() + 1 && final(bp).evs().last() is Warning),
        only_diags(final(bp).evs(), old(bp).evs()),
closure @ `|line| {` `&mut BlockParser<'t, '_>` ret `o: Option<Body<'t>>`:
        requires old(line).wf()
        ensures final(line).wf(), final(line).same(old(line)), final(line).evs() == old(line).evs(),
            o.is_some() ==> final(line).cur() > old(line).cur() && o.unwrap().ok(old(line).toks(), old(line).cur()),
closure @ `|t| matches!(t, T!['{'] | T![@] | T![#] | T![~])` `TokenKind` ret `b: bool`:
        ensures b == (t == TokenKind::OpenBrace || is_marker(t))
closure @ `|t| t == T!['}']` `TokenKind` ret `b: bool`:
        ensures b == (t == TokenKind::CloseBrace)
closure @ `|t| !matches!(t.kind, T![ws] | T![block comment])` `&Token` ret `b: bool`:
        ensures b == !(t.kind == TokenKind::Whitespace || t.kind == TokenKind::BlockComment)
closure @ `|bp| {` `&mut BlockParser<'t, '_>` ret `o: Option<Body<'t>>`:
        requires old(bp).wf()
        ensures final(bp).wf(), final(bp).same(old(bp)),
            o.is_some() ==> final(bp).cur() > old(bp).cur() && o.unwrap().ok(old(bp).toks(), old(bp).cur()) && final(bp).evs() == old(bp).evs(),
            final(bp).evs() == old(bp).evs() || (final(bp).evs().len() == old(bp).evs().len() + 1 && final(bp).evs().last() is Warning),
            only_diags(final(bp).evs(), old(bp).evs()),
closure @ `|t| matches!(t, T![word] | T![int] | T![zeroint])` `TokenKind` ret `b: bool`:
        ensures b == (t == TokenKind::Word || t == TokenKind::Int || t == TokenKind::ZeroInt)
after `let close_span_start = line.consume(T!['{'])?.span.start();`:
        let ghost i1 = line.cur() - 1;
before `let close_span = Span::new(close_span_start, close_span_end);`:
        proof { lemma_mono(line.toks(), i1, line.cur() - 1); assert(line.toks()[i1].span.s() < line.toks()[i1].span.e());
                lemma_off_mono(line.toks(), old(line).cur(), i1); lemma_mono(line.toks(), old(line).cur(), i1); }
@*/
// ASSUMED (slice patterns are outside the verifier): consumes exactly the `( .. )` group if the next token is `(`
/*@ fn src/parser/step.rs parse_intermediate_ref_data stub
ret r
spec:
    requires old(bp).wf(), toks_ok(vals(old(tokens).remaining())),
        // [C03] the `expect` on the closing parenthesis: a `(` is only ever followed by its `)`
        vals(old(tokens).remaining()).len() > 0 && vals(old(tokens).remaining())[0].kind == TokenKind::OpenParen
            ==> exists|j: int| #[trigger] close_at(vals(old(tokens).remaining()), 0, j),
    ensures final(bp).wf(), final(bp).same(old(bp)), final(bp).cur() == old(bp).cur(), only_diags(final(bp).evs(), old(bp).evs()),
        r.is_some() ==> r.unwrap().sp().ok(),
        vals(old(tokens).remaining()).len() > 0 && vals(old(tokens).remaining())[0].kind == TokenKind::OpenParen
            ==> exists|j: int| #[trigger] close_at(vals(old(tokens).remaining()), 0, j) && vals((*final(tokens)).remaining()) == vals(old(tokens).remaining()).skip(j + 1),
        !(vals(old(tokens).remaining()).len() > 0 && vals(old(tokens).remaining())[0].kind == TokenKind::OpenParen)
            ==> vals((*final(tokens)).remaining()) == vals(old(tokens).remaining()),
        (*final(tokens)).remaining().len() <= old(tokens).remaining().len(),
        old(tokens).decrease().is_some() ==> (*final(tokens)).decrease().is_some() && (*final(tokens)).decrease().unwrap() <= old(tokens).decrease().unwrap(),
@*/
/*@ fn src/parser/step.rs parse_modifiers
tags C02 C03 C04 C07
ret r
rewrite `modifiers |= new_m;` => `modifiers.insert(new_m);`
enter:
    hide(toks_ok);
    proof { lemma_modifier_bits(); lemma_or_recipe(0, 0); }
attr #[verifier::spinoff_prover]
spec:
    requires old(bp).wf(), toks_ok(modifiers_tokens@), gbnd(modifiers_pos as int),
        mods_ok(modifiers_tokens@, 0, old(bp).ext().has(Extensions::INTERMEDIATE_PREPARATIONS)),    // [C03] established by modifiers()
    ensures final(bp).wf(), final(bp).same(old(bp)), final(bp).cur() == old(bp).cur(), only_diags(final(bp).evs(), old(bp).evs()),
        r.flags.sp().ok(), r.intermediate_data.is_some() ==> r.intermediate_data.unwrap().sp().ok(),     // [C04]
        r.flags.val().has(Modifiers::RECIPE) ==> exists|i: int| 0 <= i < modifiers_tokens@.len() && (#[trigger] modifiers_tokens@[i]).kind == TokenKind::At,
        // [C02] with the intermediate-preparations extension off no reference target is ever read from the modifiers
        !old(bp).ext().has(Extensions::INTERMEDIATE_PREPARATIONS) ==> r.intermediate_data.is_none(),     // [C02]
after `let mut tokens = modifiers_tokens.iter();`:
        let ghost mt = modifiers_tokens@;
        let ghost inter = bp.ext().has(Extensions::INTERMEDIATE_PREPARATIONS);
        let ghost mut idx: int = 0;    // number of modifier tokens consumed so far
        proof { lemma_vals_as_ref(mt); assert(mt.skip(0) =~= mt); }
loop 0:
            invariant bp.wf(), bp.same(old(bp)), bp.cur() == old(bp).cur(), only_diags(bp.evs(), old(bp).evs()),
                mt == modifiers_tokens@, toks_ok(mt), inter == bp.ext().has(Extensions::INTERMEDIATE_PREPARATIONS),
                modifiers_span.ok(),
                inter_data_ok(intermediate_data),
                !inter ==> intermediate_data.is_none(),     // [C02]
                0 <= idx <= mt.len(), vals(tokens.remaining()) == mt.skip(idx), mods_ok(mt, idx, inter),
                modifiers.bits & 1 == 1 ==> exists|i: int| 0 <= i < mt.len() && (#[trigger] mt[i]).kind == TokenKind::At,
                tokens.decrease().is_some(),
            decreases tokens.decrease().unwrap()
loopbody 0:
            broadcast use {lemma_vals_skip, lemma_vals_drop_first};
            let ghost m0 = modifiers.bits;
            let ghost i = idx;
            proof {
                lemma_modifier_bits();
                assert(mt.skip(i).len() > 0);
                assert(mt.skip(i).drop_first() =~= mt.skip(i + 1));
                assert(mt.skip(i)[0] == mt[i]);
                assert(vals(tokens.remaining()) == mt.skip(i + 1));
                assert(*tok == mt[i]);
                lemma_sub_ok(mt, i + 1, mt.len() as int); assert(mt.skip(i + 1) =~= mt.subrange(i + 1, mt.len() as int));
                lemma_tok(mt, i);
                idx = i + 1;
                if mt[i].kind == TokenKind::And && i + 1 < mt.len() && mt[i + 1].kind == TokenKind::OpenParen {
                    let j = choose|j: int| #[trigger] close_at(mt, i + 1, j) && mods_ok(mt, j + 1, inter);
                    lemma_close_shift(mt, i + 1, i + 1, j);
                    assert(close_at(mt.skip(i + 1), 0, j - (i + 1)));
                    assert(mt.skip(i + 1).skip(j - (i + 1) + 1) =~= mt.skip(j + 1));
                    idx = j + 1;
                }
            }
after `intermediate_data = parse_intermediate_ref_data(bp, &mut tokens);`:
                        proof {
                            if mt[i].kind == TokenKind::And && i + 1 < mt.len() && mt[i + 1].kind == TokenKind::OpenParen {
                                let j = idx - 1;
                                assert forall|j2: int| #[trigger] close_at(mt.skip(i + 1), 0, j2) implies j2 == j - (i + 1) by { lemma_close_unique(mt.skip(i + 1), 0, j2, j - (i + 1)); }
                            }
                        }
after `modifiers |= new_m;<NL>            }`:
            proof { lemma_or_recipe(m0, new_m.bits); }
@*/
/*@ fn src/parser/step.rs parse_alias
tags C03 C04 C07 C02
ret r
inline then 0
spec:
    requires old(bp).wf(), toks_ok(tokens@), gbnd(name_offset as int), tokens@.len() > 0 ==> name_offset == tokens@[0].span.s(),
    ensures final(bp).wf(), final(bp).same(old(bp)), final(bp).cur() == old(bp).cur(), only_diags(final(bp).evs(), old(bp).evs()),
        r.0.wf() && gbnd(r.0.start_spec()) && gbnd(r.0.end_spec()),
        r.1.is_some() ==> r.1.unwrap().wf() && gbnd(r.1.unwrap().start_spec()) && gbnd(r.1.unwrap().end_spec()),
        // [C02] with the alias extension off `|` stays in the name and nothing is reported
        !old(bp).ext().has(Extensions::COMPONENT_ALIAS) ==> r.1.is_none() && final(bp).evs() == old(bp).evs(),
closure 1 `&Token` ret `b: bool`:
        ensures b == (t.kind == TokenKind::Or)
closure 2 `&Token` ret `b: bool`:
        ensures b == (t.kind == TokenKind::Or)
enter:
    proof { lemma_vals_as_ref(tokens@); }
after `let (name_tokens, alias_tokens) = tokens.split_at(alias_sep);`:
        proof { lemma_sub_ok(tokens@, 0, alias_sep as int); lemma_sub_ok(tokens@, alias_sep as int, tokens@.len() as int);
                assert(name_tokens@ =~= tokens@.subrange(0, alias_sep as int)); assert(alias_tokens@ =~= tokens@.subrange(alias_sep as int, tokens@.len() as int)); }
after `let (alias_sep, alias_text_tokens) = alias_tokens.split_first().unwrap();`:
        proof { lemma_sub_ok(alias_tokens@, 1, alias_tokens@.len() as int); assert(alias_text_tokens@ =~= alias_tokens@.subrange(1, alias_tokens@.len() as int));
                if alias_text_tokens@.len() > 0 { lemma_tok(alias_tokens@, 0); lemma_mono(alias_tokens@, 0, alias_tokens@.len() - 1); } }
@*/
/// C04/C05: a component event is located exactly at the bytes it consumed
pub open spec fn comp_at<'i>(ev: Event<'i>, a: int, b: int) -> bool {
    match ev {
        Event::Ingredient(l) => l.sp().s() == a && l.sp().e() == b,
        Event::Cookware(l) => l.sp().s() == a && l.sp().e() == b,
        Event::Timer(l) => l.sp().s() == a && l.sp().e() == b,
        _ => false,
    }
}
/*@ fn src/parser/step.rs ingredient
tags C03 C04 C05 C07
ret r
inline map 0
attr #[verifier::spinoff_prover]
spec:
    requires old(bp).wf(),
    ensures final(bp).wf(), final(bp).same(old(bp)), only_diags(final(bp).evs(), old(bp).evs()),
        // [C04] [C05] the event spans exactly the consumed tokens
        r.is_some() ==> final(bp).cur() > old(bp).cur() && comp_at(r.unwrap(), old(bp).off(), final(bp).off()),
after `let body = comp_body(bp)?;`:
    proof { lemma_off_mono(bp.toks(), old(bp).cur() + 1, bp.cur()); }
after `let end = bp.current_offset();`:
    proof { lemma_off_mono(bp.toks(), old(bp).cur(), bp.cur()); }
@*/
/*@ fn src/parser/step.rs cookware
tags C03 C04 C05 C07
ret r
inline map 0
inline map 2
attr #[verifier::spinoff_prover]
spec:
    requires old(bp).wf(),
    ensures final(bp).wf(), final(bp).same(old(bp)), only_diags(final(bp).evs(), old(bp).evs()),
        // [C04] [C05] the event spans exactly the consumed tokens
        r.is_some() ==> final(bp).cur() > old(bp).cur() && comp_at(r.unwrap(), old(bp).off(), final(bp).off()),
        // [C07] the recipe modifier is forbidden on cookware: when the item carries it, the last thing queued is that error
        r.is_some() && r.unwrap() is Cookware && r.unwrap()->Cookware_0.val().modifiers.val().has(Modifiers::RECIPE)
            ==> final(bp).evs().len() > old(bp).evs().len() && final(bp).evs().last() is Error,     // [C07]
closure @ `|q| q.value` `Quantity<'i>` ret `v: QuantityValue`:
        ensures v == q.value
closure @ `|t| t.kind == T![@]` `&&Token` ret `b: bool`:
        ensures b == (t.kind == TokenKind::At)
after `let body = comp_body(bp)?;`:
    proof { lemma_off_mono(bp.toks(), old(bp).cur() + 1, bp.cur()); lemma_names(); }
after `let end = bp.current_offset();`:
    proof { lemma_off_mono(bp.toks(), old(bp).cur(), bp.cur()); }
@*/
/*@ fn src/parser/step.rs timer
tags C03 C04 C05 C06 C07 C02
ret r
inline map 0
inline unwrap_or_else 0
attr #[verifier::spinoff_prover]
spec:
    requires old(bp).wf(),
    ensures final(bp).wf(), final(bp).same(old(bp)), only_diags(final(bp).evs(), old(bp).evs()),
        // [C04] [C05] the event spans exactly the consumed tokens
        r.is_some() ==> final(bp).cur() > old(bp).cur() && comp_at(r.unwrap(), old(bp).off(), final(bp).off()),
        // [C06] every timer that is emitted has a name or a quantity (a bare `~{}` gets an error and a recovered quantity)
        r.is_some() ==> r.unwrap() is Timer && (r.unwrap()->Timer_0.val().name.is_some() || r.unwrap()->Timer_0.val().quantity.is_some()),
        // [C07] a timer whose quantity has no unit (written without one, or recovered because the duration is missing) is an error:
        //       the last thing queued is that error
        r.is_some() && r.unwrap() is Timer && r.unwrap()->Timer_0.val().quantity.is_some() && r.unwrap()->Timer_0.val().quantity.unwrap().val().unit.is_none()
            ==> final(bp).evs().len() > old(bp).evs().len() && final(bp).evs().last() is Error,     // [C07]
after `let body = comp_body(bp)?;`:
    proof { lemma_off_mono(bp.toks(), old(bp).cur() + 1, bp.cur()); lemma_names(); }
after `let end = bp.current_offset();`:
    proof { lemma_off_mono(bp.toks(), old(bp).cur(), bp.cur()); }
@*/
/// C05, step loop: a component event that spans exactly the tokens [pc, c) covers them
pub proof fn lemma_step_comp<'i>(toks: Seq<Token>, pc: int, c: int, mid: Seq<Event<'i>>, ev: Event<'i>, n0: int)
    requires toks_ok(toks), 0 <= pc < c <= toks.len(), 0 <= n0 <= mid.len(),
        covered(toks, pc, mid, n0), comp_at(ev, cur_off(toks, pc), cur_off(toks, c)),
    ensures covered(toks, c, mid.push(ev), n0)
{
    lemma_grown_push(mid, ev);
    lemma_covered_grown(toks, pc, mid, mid.push(ev), n0);
    assert forall|i: int| 0 <= i < c implies tok_covered(#[trigger] toks[i], mid.push(ev), n0) by {
        if i >= pc {
            lemma_mono(toks, pc, i); lemma_mono(toks, i, c - 1);
            lemma_off_mono(toks, pc, c);
            let k = mid.len() as int;
            assert(mid.push(ev)[k] == ev);
            assert(ev_covers(mid.push(ev)[k], cs(toks[i]), toks[i].span.e()));
        }
    }
}
/// C05, step loop: the text built from the tokens [pc, c) covers them (it is queued unless it has no fragment at all)
pub proof fn lemma_step_text<'i>(toks: Seq<Token>, pc: int, c: int, sub: Seq<Token>, mid: Seq<Event<'i>>, text: Text<'i>, n0: int, new: Seq<Event<'i>>)
    requires toks_ok(toks), 0 <= pc < c <= toks.len(), 0 <= n0 <= mid.len(), sub == toks.subrange(pc, c),
        covered(toks, pc, mid, n0),
        text.frags().len() > 0 ==> new == mid.push(Event::Text(text)),
        text.frags().len() == 0 ==> new == mid,
        forall|k: int| 0 <= k < sub.len() && content_kind(sub[k].kind) && cs(sub[k]) < sub[k].span.e() ==>
            text.frags().len() > 0 && text.start_spec() <= cs(#[trigger] sub[k]) && sub[k].span.e() <= text.end_spec(),
    ensures covered(toks, c, new, n0)
{
    if text.frags().len() > 0 { lemma_grown_push(mid, Event::Text(text)); } else { lemma_grown_refl(mid); }
    lemma_covered_grown(toks, pc, mid, new, n0);
    assert forall|i: int| 0 <= i < c implies tok_covered(#[trigger] toks[i], new, n0) by {
        if i >= pc {
            let t = toks[i];
            assert(sub[i - pc] == t);
            if content_kind(t.kind) && cs(t) < t.span.e() {
                assert(text.frags().len() > 0);
                let k = new.len() - 1;
                assert(new[k] == Event::Text(text));
                assert(ev_covers(new[k], cs(t), t.span.e()));
            }
        }
    }
}
/*@ fn src/parser/step.rs parse_step
tags C03 C04 C05
attr #[verifier::spinoff_prover]
spec:
    requires old(bp).wf(), old(bp).cur() == 0,
    ensures final(bp).wf(), final(bp).same(old(bp)),
        final(bp).cur() == final(bp).toks().len(),     // [C03] [C05] every token is consumed (progress; finish() cannot panic)
        ev_grown(final(bp).evs(), old(bp).evs()),
        no_meta_since(final(bp).evs(), old(bp).evs().len() as int),     // [C02] a step never produces a metadata entry
        // [C05] every token that can hold a letter or digit lies in the span of an event emitted by this call
        covered(final(bp).toks(), final(bp).toks().len() as int, final(bp).evs(), old(bp).evs().len() as int),    // [C05]
        // [C04] the located events of the step appear in source order, without overlapping, inside the block
        ev_ordered(final(bp).evs(), old(bp).evs().len() as int, final(bp).toks()[0].span.s(), final(bp).toks().last().span.e()),    // [C04]
enter:
    hide(toks_ok);
after `bp.event(Event::Start(BlockKind::Step));`:
    proof { lemma_grown_push(old(bp).evs(), Event::Start(BlockKind::Step)); }
    let ghost n0 = old(bp).evs().len() as int;
    proof { lemma_no_meta_push(old(bp).evs(), Event::Start(BlockKind::Step), n0); }
    proof { assert(ev_ordered(bp.evs(), n0, bp.toks()[0].span.s(), bp.off())) by { assert(bp.evs()[n0] == Event::Start(BlockKind::Step)); } }
loop 0:
        invariant bp.wf(), bp.same(old(bp)), ev_grown(bp.evs(), old(bp).evs()), n0 == old(bp).evs().len(), n0 < bp.evs().len(),
            covered(bp.toks(), bp.cur(), bp.evs(), n0),     // [C05]
            no_meta_since(bp.evs(), n0),     // [C02]
            ev_ordered(bp.evs(), n0, bp.toks()[0].span.s(), bp.off()),     // [C04]
        decreases bp.toks().len() - bp.cur()
before `let component = match bp.peek() {`:
        let ghost pre = *bp;
        proof { assert(bp.cur() < bp.toks().len()); }
before `if let Some(ev) = component {`:
        proof {
            lemma_grown_refl(pre.evs());
            assert(only_diags(bp.evs(), pre.evs()));
            lemma_grown_trans(bp.evs(), pre.evs(), old(bp).evs());
            lemma_covered_grown(bp.toks(), pre.cur(), pre.evs(), bp.evs(), n0);
            lemma_no_meta_diags(bp.evs(), pre.evs(), n0);
            lemma_ordered_grown(pre.evs(), bp.evs(), n0, bp.toks()[0].span.s(), pre.off());
        }
        let ghost mid = *bp;
after `bp.event(ev)`:
            ; proof {
                lemma_grown_push(mid.evs(), ev);
                lemma_grown_trans(bp.evs(), mid.evs(), old(bp).evs());
                reveal(toks_ok);
                lemma_step_comp(bp.toks(), pre.cur(), bp.cur(), mid.evs(), ev, n0);
                lemma_no_meta_push(mid.evs(), ev, n0);
                lemma_off_mono(bp.toks(), 0, pre.cur()); lemma_off_mono(bp.toks(), pre.cur(), bp.cur());
                lemma_ordered_push(mid.evs(), ev, n0, bp.toks()[0].span.s(), pre.off(), bp.off());
            }
before `let tokens = bp.capture_slice(|bp| {`:
            let ghost pre2 = *bp;
closure @ `|bp| {` `&mut BlockParser` :
        requires *old(bp) == pre2, pre2.wf(), pre2.cur() < pre2.toks().len()
        ensures final(bp).wf(), final(bp).same(&pre2), final(bp).evs() == pre2.evs(),
            final(bp).cur() > pre2.cur(),     // [C03] every iteration of the step loop consumes at least one token (no hang)
closure @ `|t| !matches!(t, T![@] | T![#] | T![~])` `TokenKind` ret `b: bool`:
        ensures b == !is_marker(t)
after `let text = bp.text(start, tokens);`:
            proof { lemma_off_mono(bp.toks(), pre2.cur(), bp.cur()); }
            let ghost mid2 = *bp;
after `bp.event(Event::Text(text));`:
                proof {
                    lemma_no_meta_push(mid2.evs(), Event::Text(text), n0);
                    lemma_grown_push(mid2.evs(), Event::Text(text));
                    lemma_grown_trans(bp.evs(), mid2.evs(), old(bp).evs());
                }
after `bp.event(Event::Text(text));<NL>            }`:
            proof {
                lemma_grown_refl(mid2.evs());
                reveal(toks_ok);
                lemma_step_text(bp.toks(), pre.cur(), bp.cur(), tokens@, mid2.evs(), text, n0, bp.evs());
                lemma_off_mono(bp.toks(), 0, pre.cur()); lemma_off_mono(bp.toks(), pre.cur(), bp.cur());
                lemma_tok(bp.toks(), pre.cur()); lemma_tok(bp.toks(), bp.cur() - 1);
                assert(tokens@[0] == bp.toks()[pre.cur()]); assert(tokens@.last() == bp.toks()[bp.cur() - 1]);
                if bp.evs().len() > mid2.evs().len() {
                    lemma_ordered_push(mid2.evs(), Event::Text(text), n0, bp.toks()[0].span.s(), pre.off(), bp.off());
                } else {
                    assert(ev_ordered(bp.evs(), n0, bp.toks()[0].span.s(), bp.off())) by {
                        lemma_ordered_weaken(mid2.evs(), n0, bp.toks()[0].span.s(), pre.off(), bp.off());
                    }
                }
            }
before `bp.event(Event::End(BlockKind::Step));`:
    let ghost fin = *bp;
after `bp.event(Event::End(BlockKind::Step));`:
    proof {
        lemma_grown_push(fin.evs(), Event::End(BlockKind::Step));
        lemma_no_meta_push(fin.evs(), Event::End(BlockKind::Step), n0);
        lemma_grown_trans(bp.evs(), fin.evs(), old(bp).evs());
        lemma_covered_grown(bp.toks(), fin.cur(), fin.evs(), bp.evs(), n0);
        lemma_ordered_push(fin.evs(), Event::End(BlockKind::Step), n0, bp.toks()[0].span.s(), fin.off(), fin.off());
        lemma_off_mono(bp.toks(), 0, bp.cur());
    }
@*/
} // verus!
} // mod step

/*@ macro src/parser/mod.rs mt
@*/
pub mod parser_fns {
use vstd::prelude::*;
use std::collections::VecDeque;
use std::iter::Peekable;
use crate::*;
use crate::block_parser::BlockParser;
use crate::parser_ev::Event;
use crate::section::section;
use crate::metadata::metadata_entry;
use crate::text_block::parse_text_block;
use crate::step::parse_step;
verus! {
broadcast use {crate::parser_ev::lemma_diags_trans, crate::parser_ev::lemma_grown_refl};
/// C17: tokens that never separate or join blocks: whitespace, comments, newlines
pub open spec fn empty_kind(k: TokenKind) -> bool { k == TokenKind::Whitespace || k == TokenKind::BlockComment || k == TokenKind::LineComment || k == TokenKind::Newline }
/*@ fn src/parser/mod.rs is_empty_token
tags C03 C17
ret r
spec:
    ensures r == empty_kind(tok.kind)    // [C17] blank-line classification ignores exactly spaces, comments and newlines
@*/
/*@ fn src/parser/mod.rs is_single_line_marker
tags C03 C17
ret r
spec:
    ensures r == (first.is_some() && (first.unwrap().kind == TokenKind::MetadataStart || first.unwrap().kind == TokenKind::Eq))
@*/
/*@ fn src/parser/mod.rs parse_multiline_block
tags C03 C05 C17
hoist 0
spec:
    requires old(bp).wf(), old(bp).cur() == 0,   // [C05] the whole block is still unparsed
        old(bp).toks().last().kind != TokenKind::Newline,    // [C03] block splitter trims trailing newlines
    ensures final(bp).wf(), final(bp).same(old(bp)),
        final(bp).cur() == final(bp).toks().len(),    // [C03] [C05] the whole block is consumed (finish() must not panic)
        ev_grown(final(bp).evs(), old(bp).evs()),
        no_meta_since(final(bp).evs(), old(bp).evs().len() as int),     // [C02] steps and paragraphs never produce a metadata entry
        // [C05] a block that is not a `>` text paragraph: every letter and digit is covered by an event of this call
        old(bp).toks()[0].kind != TokenKind::TextStep ==> covered(final(bp).toks(), final(bp).toks().len() as int, final(bp).evs(), old(bp).evs().len() as int),
closure @ `|t| t.kind != T![newline]` `&Token` ret `b: bool`:
        ensures b == (t.kind != TokenKind::Newline)
closure @ `|t| {` `&Token` ret `b: bool`:
        ensures b == empty_kind(t.kind)
before `bp.consume_rest();`:
        proof {
            lemma_grown_refl(bp.evs());
            assert forall|i: int| 0 <= i < bp.toks().len() implies tok_covered(#[trigger] bp.toks()[i], bp.evs(), bp.evs().len() as int) by { assert(empty_kind(bp.toks()[i].kind)); }
        }
@*/
/*@ fn src/parser/mod.rs parse_block
tags C03 C05 C02
inline filter 0
attr #[verifier::spinoff_prover]
spec:
    requires old(block).wf(), old(block).cur() == 0,
        old(block).toks().last().kind != TokenKind::Newline,
    ensures final(block).wf(), final(block).same(old(block)),
        final(block).cur() == final(block).toks().len(),    // [C03] [C05] the whole block is consumed (finish() must not panic)
        ev_grown(final(block).evs(), old(block).evs()),
        // [C02] with a front matter (no old-style metadata) and the MODES extension off, a `>>` line is never a metadata entry
        !old_style_metadata && !old(block).ext().has(Extensions::MODES) ==> no_meta_since(final(block).evs(), old(block).evs().len() as int),     // [C02]
        // [C05] every letter and digit of the block lies in the span of an event queued by this call, except in a `>` text
        //       paragraph and in a section whose name is blank (both drop blank texts: assumption on Text::is_text_empty)
        old(block).toks()[0].kind != TokenKind::TextStep && !(final(block).evs().last() is Section && final(block).evs().last()->name.is_none())
            ==> covered(final(block).toks(), final(block).toks().len() as int, final(block).evs(), old(block).evs().len() as int),     // [C05]
enter:
    let ghost pre = *block;
?closure @ `|bp| {` `&mut BlockParser<'_, '_>` ret `o: Option<Event<'_>>`:
        requires *old(bp) == pre, pre.wf(), pre.cur() == 0
        ensures final(bp).wf(), final(bp).same(&pre), o.is_some() ==> final(bp).cur() == final(bp).toks().len(),
            only_diags(final(bp).evs(), pre.evs()), o.is_some() ==> covered_by(pre.toks(), o.unwrap()),
            o.is_some() ==> old_style_metadata || pre.ext().has(Extensions::MODES),     // [C02] the filter lets an entry through only under one of the two
before `if let Some(ev) = meta_or_section {`:
    let ghost mid = *block;
    proof { assert(only_diags(mid.evs(), pre.evs())); lemma_grown_refl(pre.evs()); lemma_no_meta_diags(mid.evs(), pre.evs(), pre.evs().len() as int); }
after `block.event(ev);`:
        proof {
            if !(ev is Metadata) { lemma_no_meta_push(mid.evs(), ev, pre.evs().len() as int); }
            lemma_grown_push(mid.evs(), ev); lemma_grown_trans(block.evs(), mid.evs(), pre.evs());
            if !(ev is Section && ev->name.is_none()) { lemma_covered_by_push(block.toks(), ev, mid.evs(), pre.evs().len() as int); }
        }
after `parse_multiline_block(block);`:
        proof {
            assert forall|k: int| pre.evs().len() <= k < block.evs().len() implies !((#[trigger] block.evs()[k]) is Metadata) by {
                if k < mid.evs().len() { assert(block.evs().subrange(0, mid.evs().len() as int)[k] == block.evs()[k]); }
            }
            lemma_grown_trans(block.evs(), mid.evs(), pre.evs());
            if pre.toks()[0].kind != TokenKind::TextStep { lemma_covered_from(block.toks(), block.toks().len() as int, block.evs(), mid.evs().len() as int, pre.evs().len() as int); }
        }
@*/
// TRUSTED model of std::iter::Peekable (no vstd specification): an iterator like any other (vstd's prophetic iterator
// laws are assumed for it in PullParser::wf) whose `peek` shows the next item without consuming it
#[verifier::external_type_specification]
#[verifier::external_body]
#[verifier::reject_recursive_types(I)]
pub struct ExPeekable<I: Iterator>(Peekable<I>);
pub assume_specification<I: Iterator>[ Peekable::<I>::peek ](p: &mut Peekable<I>) -> (r: Option<&I::Item>)
    ensures vstd::std_specs::iter::IteratorSpec::remaining(&*final(p)) == vstd::std_specs::iter::IteratorSpec::remaining(&*old(p)),
        r.is_some() == (vstd::std_specs::iter::IteratorSpec::remaining(&*old(p)).len() > 0),
        r.is_some() ==> *r.unwrap() == vstd::std_specs::iter::IteratorSpec::remaining(&*old(p))[0],
        vstd::std_specs::iter::IteratorSpec::obeys_prophetic_iter_laws(&*final(p)) == vstd::std_specs::iter::IteratorSpec::obeys_prophetic_iter_laws(&*old(p)),
        vstd::std_specs::iter::IteratorSpec::decrease(&*final(p)) == vstd::std_specs::iter::IteratorSpec::decrease(&*old(p));

/*@ type src/parser/mod.rs PullParser
derive
attr #[verifier::reject_recursive_types(T)]
@*/
/*@ type src/parser/mod.rs LineInfo
derive
@*/
pub open spec fn single_marker(k: TokenKind) -> bool { k == TokenKind::MetadataStart || k == TokenKind::Eq }

/// C05: what parse_block guarantees about a block `ts`, seen from the owner of the event queue
pub open spec fn block_covered<'i>(ts: Seq<Token>, newq: Seq<Event<'i>>, oldq: Seq<Event<'i>>) -> bool {
    &&& ev_grown(newq, oldq)
    &&& (ts[0].kind != TokenKind::TextStep && !(newq.last() is Section && newq.last()->name.is_none())
            ==> covered(ts, ts.len() as int, newq, oldq.len() as int))
}
/// the last step of next_block, kept out of the function body (it is cheap here and expensive there): what the block parser
/// guarantees about its token slice is what the postcondition says about the corresponding range of the remaining stream
pub proof fn lemma_next_block_done<'i>(r0: Seq<Token>, blk: Seq<Token>, start: int, end: int, toks: Seq<Token>, newq: Seq<Event<'i>>, oldq: Seq<Event<'i>>)
    requires 0 <= start < end <= blk.len() <= r0.len(), blk == r0.subrange(0, blk.len() as int), toks == blk.subrange(start, end),
        is_block(r0, start, end, blk.len() as int), ev_grown(newq, oldq),
        toks[0].kind != TokenKind::TextStep && !(newq.last() is Section && newq.last()->name.is_none()) ==> covered(toks, toks.len() as int, newq, oldq.len() as int),
    ensures exists|a: int, b: int| #[trigger] is_block(r0, a, b, blk.len() as int) && block_covered(r0.subrange(a, b), newq, oldq)
{
    assert(toks =~= r0.subrange(start, end));
    lemma_block_covered(toks, newq, oldq);
    assert(is_block(r0, start, end, blk.len() as int) && block_covered(r0.subrange(start, end), newq, oldq));
}
pub proof fn lemma_block_covered<'i>(ts: Seq<Token>, newq: Seq<Event<'i>>, oldq: Seq<Event<'i>>)
    requires ev_grown(newq, oldq),
        ts[0].kind != TokenKind::TextStep && !(newq.last() is Section && newq.last()->name.is_none()) ==> covered(ts, ts.len() as int, newq, oldq.len() as int),
    ensures block_covered(ts, newq, oldq)
{}
/// C05/C17: all tokens of s in [a, b) are blank (whitespace, comments, newlines).  Opaque: used through the lemmas below.
#[verifier::opaque]
pub open spec fn all_blank(s: Seq<Token>, a: int, b: int) -> bool { forall|j: int| a <= j < b ==> empty_kind((#[trigger] s[j]).kind) }
#[verifier::opaque]
pub open spec fn no_newline(s: Seq<Token>, a: int, b: int) -> bool { forall|j: int| a <= j < b ==> (#[trigger] s[j]).kind != TokenKind::Newline }
/// C05/C17: of the first l tokens of s, [a, b) is the block handed to the block parser
pub open spec fn is_block(s: Seq<Token>, a: int, b: int, l: int) -> bool {
    &&& 0 <= a < b <= l <= s.len()
    &&& all_blank(s, 0, a) && all_blank(s, b, l)                   // nothing but blanks is left out
    &&& !all_blank(s, a, b)                                        // a block is never blank
    &&& (a == 0 || s[a - 1].kind == TokenKind::Newline)            // it starts at a line start
    &&& s[b - 1].kind != TokenKind::Newline                        // trailing newlines are trimmed
    &&& (single_marker(s[a].kind) ==> no_newline(s, a, b))         // a `>>` / `=` line is a block of its own
    &&& exists|e: int| a < e <= b && #[trigger] first_line(s, a, e) // its first line is not blank (leading blank lines are left out)
    &&& (single_marker(s[a].kind) ==> is_line(s, a, b))            // [C14] ... namely the whole rest of that line
    &&& no_marker_inside(s, a, b)                                  // [C14] a `>>` / `=` line never ends up inside another block
}
/// no line of [a, b) other than the first starts with `>>` or `=`
#[verifier::opaque]
pub open spec fn no_marker_inside(s: Seq<Token>, a: int, b: int) -> bool {
    forall|j: int| a < j < b && at_line_start(s, j) ==> !single_marker((#[trigger] s[j]).kind)
}
/// a stretch without newline tokens has no line start after its first token; with one more token (its newline) neither
pub proof fn lemma_no_marker_line(s: Seq<Token>, a: int, b: int)
    requires 0 <= a < b <= s.len(), no_newline(s, a, b - 1)
    ensures no_marker_inside(s, a, b)
{
    reveal(no_marker_inside);
    assert forall|j: int| a < j < b && at_line_start(s, j) implies !single_marker((#[trigger] s[j]).kind) by { lemma_rng_at(s, a, b - 1, j - 1); }
}
/// appending a line whose first token is not a marker
pub proof fn lemma_no_marker_join(s: Seq<Token>, a: int, m: int, b: int)
    requires 0 <= a < m < b <= s.len(), no_marker_inside(s, a, m), !single_marker(s[m].kind), no_newline(s, m, b - 1)
    ensures no_marker_inside(s, a, b)
{
    reveal(no_marker_inside);
    assert forall|j: int| a < j < b && at_line_start(s, j) implies !single_marker((#[trigger] s[j]).kind) by { if j > m { lemma_rng_at(s, m, b - 1, j - 1); } }
}
pub proof fn lemma_no_marker_shrink(s: Seq<Token>, a: int, b: int, c: int)
    requires a <= c <= b, no_marker_inside(s, a, b)
    ensures no_marker_inside(s, a, c)
{ reveal(no_marker_inside); }
/// [a, e) lies within one line and is not blank
pub open spec fn first_line(s: Seq<Token>, a: int, e: int) -> bool { no_newline(s, a, e - 1) && !all_blank(s, a, e) }
pub proof fn lemma_rng_at(s: Seq<Token>, a: int, b: int, j: int)
    requires a <= j < b, 0 <= j < s.len()
    ensures all_blank(s, a, b) ==> empty_kind(s[j].kind), no_newline(s, a, b) ==> s[j].kind != TokenKind::Newline
{ reveal(all_blank); reveal(no_newline); }
/// C14/C17: position a is the first token of a line
pub open spec fn at_line_start(s: Seq<Token>, a: int) -> bool { a == 0 || s[a - 1].kind == TokenKind::Newline }
/// [a, b) is the rest of the line that a lies in: no newline token inside, and it ends at a newline token or at the end of input
pub open spec fn is_line(s: Seq<Token>, a: int, b: int) -> bool { 0 <= a <= b <= s.len() && no_newline(s, a, b) && (b == s.len() || s[b].kind == TokenKind::Newline) }
/// no `>>` at a line start before position k
pub open spec fn no_meta_before(s: Seq<Token>, k: int) -> bool { forall|j: int| 0 <= j < k ==> !((#[trigger] s[j]).kind == TokenKind::MetadataStart && at_line_start(s, j)) }
/// C14: [k, e) is the first metadata entry line of the stream: `>>` at a line start, up to (not including) the end of its line
pub open spec fn meta_entry_at(s: Seq<Token>, k: int, e: int) -> bool {
    0 <= k < e <= s.len() && s[k].kind == TokenKind::MetadataStart && at_line_start(s, k) && is_line(s, k, e) && no_meta_before(s, k)
}
/// the end of a line is unique
pub proof fn lemma_line_unique(s: Seq<Token>, a: int, b1: int, b2: int)
    requires is_line(s, a, b1), is_line(s, a, b2)
    ensures b1 == b2
{
    if b1 < b2 { lemma_rng_at(s, a, b2, b1); }
    if b2 < b1 { lemma_rng_at(s, a, b1, b2); }
}
pub proof fn lemma_rng_empty(s: Seq<Token>, a: int, b: int)
    requires b <= a
    ensures all_blank(s, a, b), no_newline(s, a, b)
{ reveal(all_blank); reveal(no_newline); }
pub proof fn lemma_rng_join(s: Seq<Token>, a: int, b: int, c: int)
    requires a <= b <= c
    ensures all_blank(s, a, c) == (all_blank(s, a, b) && all_blank(s, b, c)), no_newline(s, a, c) == (no_newline(s, a, b) && no_newline(s, b, c))
{ reveal(all_blank); reveal(no_newline); }
pub proof fn lemma_rng_one(s: Seq<Token>, a: int)
    requires 0 <= a < s.len()
    ensures all_blank(s, a, a + 1) == empty_kind(s[a].kind), no_newline(s, a, a + 1) == (s[a].kind != TokenKind::Newline)
{ reveal(all_blank); reveal(no_newline); }
/// the block is a prefix of the remaining stream: ranges mean the same in both
pub proof fn lemma_rng_prefix(r0: Seq<Token>, l: int, a: int, b: int)
    requires 0 <= a <= b <= l <= r0.len()
    ensures all_blank(r0.subrange(0, l), a, b) == all_blank(r0, a, b)
{
    reveal(all_blank);
    let p = r0.subrange(0, l);
    if all_blank(p, a, b) { assert forall|j: int| a <= j < b implies empty_kind((#[trigger] r0[j]).kind) by { assert(p[j] == r0[j]); } }
    if all_blank(r0, a, b) { assert forall|j: int| a <= j < b implies empty_kind((#[trigger] p[j]).kind) by { assert(p[j] == r0[j]); } }
}
pub proof fn lemma_rng_prefix_nl(r0: Seq<Token>, l: int, a: int, b: int)
    requires 0 <= a, b <= l <= r0.len()
    ensures no_newline(r0.subrange(0, l), a, b) == no_newline(r0, a, b)
{
    reveal(no_newline);
    let p = r0.subrange(0, l);
    if no_newline(p, a, b) { assert forall|j: int| a <= j < b implies (#[trigger] r0[j]).kind != TokenKind::Newline by { assert(p[j] == r0[j]); } }
    if no_newline(r0, a, b) { assert forall|j: int| a <= j < b implies (#[trigger] p[j]).kind != TokenKind::Newline by { assert(p[j] == r0[j]); } }
}
/// what one more line means for the caller's bookkeeping over the whole remaining stream `r0` (pull_line speaks about `r0.skip(l)`)
pub proof fn lemma_line(r0: Seq<Token>, l: int)
    requires 0 <= l <= r0.len()
    ensures
        forall|n: int| 0 <= n <= r0.len() - l ==> r0.subrange(0, l) + #[trigger] r0.skip(l).subrange(0, n) == r0.subrange(0, l + n),
        forall|n: int| 0 <= n <= r0.len() - l ==> #[trigger] r0.skip(l).skip(n) == r0.skip(l + n),
        forall|n: int| 0 <= n <= r0.len() - l ==> #[trigger] all_blank(r0.skip(l), 0, n) == all_blank(r0, l, l + n),
        forall|n: int| 0 <= n <= r0.len() - l ==> #[trigger] no_newline(r0.skip(l), 0, n) == no_newline(r0, l, l + n),
{
    reveal(all_blank); reveal(no_newline);
    assert forall|n: int| 0 <= n <= r0.len() - l implies r0.subrange(0, l) + #[trigger] r0.skip(l).subrange(0, n) == r0.subrange(0, l + n) by {
        assert(r0.subrange(0, l) + r0.skip(l).subrange(0, n) =~= r0.subrange(0, l + n));
    }
    assert forall|n: int| 0 <= n <= r0.len() - l implies #[trigger] r0.skip(l).skip(n) == r0.skip(l + n) by {
        assert(r0.skip(l).skip(n) =~= r0.skip(l + n));
    }
    assert forall|n: int| 0 <= n <= r0.len() - l implies #[trigger] all_blank(r0.skip(l), 0, n) == all_blank(r0, l, l + n) by {
        if all_blank(r0.skip(l), 0, n) { assert forall|j: int| l <= j < l + n implies empty_kind((#[trigger] r0[j]).kind) by { assert(r0.skip(l)[j - l] == r0[j]); } }
        if all_blank(r0, l, l + n) { assert forall|j: int| 0 <= j < n implies empty_kind((#[trigger] r0.skip(l)[j]).kind) by { assert(r0.skip(l)[j] == r0[l + j]); } }
    }
    assert forall|n: int| 0 <= n <= r0.len() - l implies #[trigger] no_newline(r0.skip(l), 0, n) == no_newline(r0, l, l + n) by {
        if no_newline(r0.skip(l), 0, n) { assert forall|j: int| l <= j < l + n implies (#[trigger] r0[j]).kind != TokenKind::Newline by { assert(r0.skip(l)[j - l] == r0[j]); } }
        if no_newline(r0, l, l + n) { assert forall|j: int| 0 <= j < n implies (#[trigger] r0.skip(l)[j]).kind != TokenKind::Newline by { assert(r0.skip(l)[j] == r0[l + j]); } }
    }
}
/// C14, the `>>` mechanism, as two theorems over the contracts of next_block (full parser) and next_metadata_block
/// (metadata-only scanner), for one and the same remaining token stream `s`:
/// (1) the first `>>` line of the stream is either the block the full parser takes next, or lies wholly after everything that
///     call consumed (so it is still the first `>>` line of what is left) — it is never skipped as blank and never swallowed
///     by a step or paragraph;
pub proof fn lemma_c14_first_meta(s: Seq<Token>, a: int, b: int, l: int, k: int, e: int)
    requires is_block(s, a, b, l), meta_entry_at(s, k, e)
    ensures k == a || k >= l
{
    reveal(no_marker_inside);
    if k < a { lemma_rng_at(s, 0, a, k); }
    if b <= k < l { lemma_rng_at(s, b, l, k); }
}
/// (2) when it is that block, both parsers hand the same token slice to `metadata_entry`
pub proof fn lemma_c14_same_slice(s: Seq<Token>, a: int, b: int, l: int, e: int)
    requires is_block(s, a, b, l), meta_entry_at(s, a, e)
    ensures s.subrange(a, b) == s.subrange(a, e)
{
    lemma_line_unique(s, a, b, e);
}
/// the bookkeeping of next_block adds up to the block predicate
pub proof fn lemma_is_block(r0: Seq<Token>, ls: int, l0: int, end: int, l: int)
    requires 0 <= ls < end <= l <= r0.len(), all_blank(r0, 0, ls), all_blank(r0, end, l), !all_blank(r0, ls, end),
        ls == 0 || r0[ls - 1].kind == TokenKind::Newline, r0[end - 1].kind != TokenKind::Newline,
        single_marker(r0[ls].kind) ==> no_newline(r0, ls, l - 1),
        // the first line [ls, l0): not blank, no newline before its last token, and the trimmed block keeps all of it but that newline
        ls < l0 <= l, no_newline(r0, ls, l0 - 1), !all_blank(r0, ls, l0), l0 - 1 <= end,
        single_marker(r0[ls].kind) ==> (end == r0.len() || r0[end].kind == TokenKind::Newline),
        no_marker_inside(r0, ls, end),
    ensures is_block(r0, ls, end, l)
{
    if end == l { lemma_rng_join(r0, ls, l - 1, l); lemma_rng_one(r0, l - 1); } else { lemma_rng_join(r0, ls, end, l - 1); }
    if end >= l0 { assert(first_line(r0, ls, l0)); }
    else {
        // end == l0 - 1: the trimmed token r0[l0 - 1] is blank (it lies in [end, l))
        lemma_rng_at(r0, end, l, l0 - 1);
        lemma_rng_join(r0, ls, l0 - 1, l0); lemma_rng_one(r0, l0 - 1);
        lemma_rng_join(r0, ls, l0 - 2, l0 - 1);
        assert(first_line(r0, ls, l0 - 1));
    }
}

impl<'i, T> PullParser<'i, T> where T: Iterator<Item = Token> {
    /// the tokens not yet pulled from the lexer
    #[verifier::prophetic]
    pub closed spec fn rem(&self) -> Seq<Token> { vstd::std_specs::iter::IteratorSpec::remaining(&self.tokens) }
    pub closed spec fn blk(&self) -> Seq<Token> { self.block@ }
    #[verifier::prophetic]
    pub closed spec fn wf(&self) -> bool {
        &&& vstd::std_specs::iter::IteratorSpec::obeys_prophetic_iter_laws(&self.tokens)
        &&& vstd::std_specs::iter::IteratorSpec::decrease(&self.tokens).is_some()
        &&& self.input.spec_bytes() == the_input()
    }
    pub closed spec fn fuel(&self) -> nat { vstd::std_specs::iter::IteratorSpec::decrease(&self.tokens).unwrap() }
    pub closed spec fn ctx_same(&self, o: &Self) -> bool { self.input == o.input && self.extensions == o.extensions && self.old_style_metadata == o.old_style_metadata }
    /// the events parsed but not yet handed out
    pub closed spec fn q(&self) -> Seq<Event<'i>> { self.queue@ }

/*@ fn src/parser/mod.rs PullParser::pull_line
tags C03 C05 C17
ret r
desugar_for 0
attr #[verifier::spinoff_prover]
spec:
        requires old(self).wf(),
        ensures final(self).wf(), final(self).ctx_same(old(self)), final(self).q() == old(self).q(),
            r.is_none() ==> old(self).rem().len() == 0 && final(self).blk() == old(self).blk() && final(self).rem().len() == 0,
            r.is_some() ==> ({
                let n = final(self).blk().len() - old(self).blk().len();
                &&& 1 <= n <= old(self).rem().len()
                // [C05] the line is exactly the next n tokens of the stream, appended to the block in order
                &&& final(self).blk() == old(self).blk() + old(self).rem().subrange(0, n)
                &&& final(self).rem() == old(self).rem().skip(n)
                // [C17] it ends at the first newline token (or at the end of the input)
                &&& no_newline(old(self).rem(), 0, n - 1)
                &&& (old(self).rem()[n - 1].kind == TokenKind::Newline || n == old(self).rem().len())
                // progress: a line that ends with a newline used up iterator fuel
                &&& (old(self).rem()[n - 1].kind == TokenKind::Newline ==> final(self).fuel() < old(self).fuel())
                // [C17] a line is empty exactly when it holds only whitespace, comments and the newline
                &&& r.unwrap().is_empty == all_blank(old(self).rem(), 0, n)
                &&& r.unwrap().is_single_line == single_marker(old(self).rem()[0].kind)
            }),
before `for tok in self.tokens.by_ref() {`:
        let ghost mut n: int = 0;    // tokens taken by this call
        proof {
            assert(old(self).rem().skip(0) =~= old(self).rem()); assert(old(self).blk() + old(self).rem().subrange(0, 0) =~= old(self).blk());
            lemma_rng_empty(old(self).rem(), 0, 0); lemma_rng_empty(old(self).rem(), 0, -1);
        }
loop 0:
            invariant_except_break
                no_newline(old(self).rem(), 0, n), n > 0 ==> old(self).rem()[n - 1].kind != TokenKind::Newline,     // [C17] the line goes on until a newline token is pulled
                self.rem() == old(self).rem().skip(n),
                vstd::std_specs::iter::IteratorSpec::decrease(&self.tokens).is_some(), self.fuel() <= old(self).fuel(),
            invariant
                vstd::std_specs::iter::IteratorSpec::obeys_prophetic_iter_laws(&self.tokens), self.input.spec_bytes() == the_input(),
                self.ctx_same(old(self)), self.q() == old(self).q(),
                0 <= n <= old(self).rem().len(), n == self.blk().len() - old(self).blk().len(),
                (n > 0) == !no_tokens,     // [C05] "no tokens" means none was pulled
                self.blk() == old(self).blk() + old(self).rem().subrange(0, n),     // [C05] every token taken from the stream is stored in the block
                is_empty == all_blank(old(self).rem(), 0, n),     // [C17] a line is empty exactly when all its tokens are blank
                no_newline(old(self).rem(), 0, n - 1),
                is_single_line == (old(self).rem().len() > 0 && single_marker(old(self).rem()[0].kind)),
            ensures
                self.wf(),
                n > 0 && old(self).rem()[n - 1].kind == TokenKind::Newline ==> self.fuel() < old(self).fuel() && self.rem() == old(self).rem().skip(n),
                n == 0 || old(self).rem()[n - 1].kind != TokenKind::Newline ==> n == old(self).rem().len() && self.rem().len() == 0,
            decreases self.fuel()
loopbody 0:
            let ghost k = n;
            proof {
                let r0 = old(self).rem();
                assert(r0.skip(k).len() > 0);
                assert(r0.skip(k).drop_first() =~= r0.skip(k + 1));
                assert(r0.skip(k)[0] == r0[k]);
                assert(tok == r0[k]);
                lemma_rng_join(r0, 0, k, k + 1); lemma_rng_one(r0, k);
                n = k + 1;
            }
after `self.block.push(tok);`:
            proof { let r0 = old(self).rem(); assert(old(self).blk() + r0.subrange(0, k + 1) =~= (old(self).blk() + r0.subrange(0, k)).push(r0[k])); }
@*/

/*@ fn src/parser/mod.rs PullParser::next_block
tags C03 C05 C14 C17
ret r
attr #[verifier::spinoff_prover]
spec:
        requires old(self).wf(), toks_ok(old(self).rem()),
        ensures final(self).wf(), final(self).ctx_same(old(self)),
            // [C05] the call takes a prefix of the token stream ...
            final(self).blk().len() <= old(self).rem().len(),
            final(self).blk() == old(self).rem().subrange(0, final(self).blk().len() as int),
            final(self).rem() == old(self).rem().skip(final(self).blk().len() as int),
            // [C05] ... and when it finds no block, everything that was left was blank
            r.is_none() ==> final(self).rem().len() == 0 && all_blank(old(self).rem(), 0, old(self).rem().len() as int),   // [C05]
            // [C05] [C17] otherwise the tokens [a, b) went to the block parser (which consumed all of them) and everything else that
            //              was pulled is blank; the block starts at a line start, is not blank, does not end with a newline, and a
            //              line that starts with `>>` or `=` is a block of its own
            r.is_some() ==> exists|a: int, b: int| #[trigger] is_block(old(self).rem(), a, b, final(self).blk().len() as int)   // [C05] [C17]
                && block_covered(old(self).rem().subrange(a, b), final(self).q(), old(self).q()),    // [C05] the events went to this parser's queue
            r.is_none() ==> final(self).q() == old(self).q(),
enter:
        hide(toks_ok); hide(is_block); hide(block_covered); hide(covered);
after `self.block.clear();`:
        let ghost r0 = old(self).rem();
        let ghost mut ls: int = 0;     // start of the current line inside the block
        proof { assert(r0.subrange(0, 0) =~= Seq::<Token>::empty()); assert(r0.skip(0) =~= r0); lemma_rng_empty(r0, 0, 0); }
after `let mut current_line = self.pull_line()?;`:
        proof { assert(Seq::<Token>::empty() + r0.subrange(0, self.blk().len() as int) =~= r0.subrange(0, self.blk().len() as int)); }
loop 0:
            invariant self.wf(), self.ctx_same(old(self)), self.q() == old(self).q(), r0 == old(self).rem(), toks_ok(r0),
                0 <= ls < self.blk().len() <= r0.len(), start == ls,
                self.blk() == r0.subrange(0, self.blk().len() as int), self.rem() == r0.skip(self.blk().len() as int),
                all_blank(r0, 0, ls), ls == 0 || r0[ls - 1].kind == TokenKind::Newline,
                current_line.is_empty == all_blank(r0, ls, self.blk().len() as int),
                current_line.is_single_line == single_marker(r0[ls].kind),
                no_newline(r0, ls, self.blk().len() - 1),
                self.blk()[self.blk().len() - 1] == r0[self.blk().len() - 1],
                r0[self.blk().len() - 1].kind != TokenKind::Newline ==> self.rem().len() == 0,
            decreases (if self.blk()[self.blk().len() - 1].kind == TokenKind::Newline { 1nat } else { 0nat }), self.fuel()
loopbody 0:
            let ghost len0 = self.blk().len() as int;
            proof { lemma_rng_join(r0, 0, ls, len0); lemma_line(r0, len0); }
after `current_line = self.pull_line()?;`#1:
            proof { ls = len0; }
afterloop 0:
        let ghost l0 = self.blk().len() as int;     // end of the first non-blank line
        proof { lemma_no_marker_line(r0, ls, l0); }
after `end = self.block.len();`#0:
        proof { lemma_rng_empty(r0, end as int, end as int); }
loop 1:
                invariant_except_break
                    end == self.blk().len(),
                    r0[self.blk().len() - 1].kind != TokenKind::Newline ==> self.rem().len() == 0,
                invariant self.wf(), self.ctx_same(old(self)), self.q() == old(self).q(), r0 == old(self).rem(), toks_ok(r0),
                    ls < l0 <= end <= self.blk().len() <= r0.len(), start == ls,
                    self.blk() == r0.subrange(0, self.blk().len() as int), self.rem() == r0.skip(self.blk().len() as int),
                    !all_blank(r0, ls, end as int), all_blank(r0, end as int, self.blk().len() as int),
                    self.blk()[self.blk().len() - 1] == r0[self.blk().len() - 1],
                    all_blank(r0, 0, ls), ls == 0 || r0[ls - 1].kind == TokenKind::Newline,
                    !single_marker(r0[ls].kind),    // [C17] [C14] more lines are gathered only for a block that does not start with `>>` or `=`
                    no_marker_inside(r0, ls, end as int),     // [C14] and no gathered line starts with one
                decreases (if self.blk()[self.blk().len() - 1].kind == TokenKind::Newline { 1nat } else { 0nat }), self.fuel()
loopbody 1:
                let ghost len1 = self.blk().len() as int;
                proof { lemma_line(r0, len1); }
after `end = self.block.len();`#1:
                proof { lemma_rng_join(r0, ls, len1, end as int); lemma_rng_empty(r0, end as int, end as int);
                        lemma_no_marker_join(r0, ls, len1, end as int); }
beforeloop 2:
        let ghost e0 = end as int;      // end of the block before the trailing newlines are trimmed
        proof {
            assert(single_marker(r0[ls].kind) ==> e0 == self.blk().len() && (r0[e0 - 1].kind != TokenKind::Newline ==> self.rem().len() == 0));
            lemma_rng_prefix_nl(r0, self.blk().len() as int, ls, l0 - 1);
            lemma_rng_prefix(r0, self.blk().len() as int, ls, end as int);
            lemma_rng_prefix(r0, self.blk().len() as int, end as int, self.blk().len() as int);
        }
loop 2:
            invariant ls < end <= self.blk().len(), start == ls, ls < l0 <= self.blk().len(), l0 - 1 <= end,
                end <= e0 <= self.blk().len(), end < e0 ==> self.blk()[end as int].kind == TokenKind::Newline,     // [C14] only newline tokens are trimmed
                no_newline(self.blk(), ls, l0 - 1),
                !all_blank(self.blk(), ls, end as int), all_blank(self.blk(), end as int, self.blk().len() as int),
            ensures self.blk()[end - 1].kind != TokenKind::Newline,
            decreases end
loopbody 2:
            proof {
                lemma_rng_one(self.blk(), end - 1);
                lemma_rng_join(self.blk(), ls, end - 1, end as int);
                lemma_rng_join(self.blk(), end - 1, end as int, self.blk().len() as int);
                if ls == end - 1 { lemma_rng_empty(self.blk(), ls, ls); }
                if end - 1 < l0 - 1 { lemma_rng_at(self.blk(), ls, l0 - 1, end - 1); }
            }
afterloop 2:
        proof {
            lemma_rng_prefix(r0, self.blk().len() as int, ls, end as int);
            lemma_rng_prefix(r0, self.blk().len() as int, end as int, self.blk().len() as int);
            assert(self.blk()[end - 1] == r0[end - 1]);
            if end < e0 { assert(self.blk()[end as int] == r0[end as int]); }
            lemma_no_marker_shrink(r0, ls, e0, end as int);
            lemma_is_block(r0, ls, l0, end as int, self.blk().len() as int);
            lemma_sub_ok(r0, 0, self.blk().len() as int);
            lemma_sub_ok(self.blk(), start as int, end as int);
            lemma_tok(self.blk().subrange(start as int, end as int), 0);
            broadcast use axiom_str_len_bound;
        }
after `let mut bp = BlockParser::new(trimmed_block, self.input, &mut self.queue, self.extensions);`:
        let ghost bp0 = bp;
after `parse_block(&mut bp, self.old_style_metadata);`:
        let ghost bp1 = bp;
after `bp.finish();`:
        proof {
            lemma_next_block_done(r0, self.blk(), start as int, end as int, bp1.toks(), bp1.evs(), bp0.evs());
        }
@*/

/*@ fn src/parser/mod.rs PullParser::next_metadata_block
tags C03 C05 C14
ret r
desugar_for 1
attr #[verifier::spinoff_prover]
spec:
        requires old(self).wf(), toks_ok(old(self).rem()),
        ensures final(self).wf(), final(self).ctx_same(old(self)),
            // the call takes a prefix of the token stream
            exists|m: int| 0 <= m <= old(self).rem().len() && final(self).rem() == #[trigger] old(self).rem().skip(m),
            // [C05] metadata-only mode: events are only ever added to the queue
            r.is_some() ==> ev_grown(final(self).q(), old(self).q()),
            r.is_none() ==> final(self).q() == old(self).q(),
            // [C14] the block handed to metadata_entry is exactly the first `>>` line of what was left: from the `>>` at a line
            //       start up to, not including, the end of its line — the same slice the full parser makes a block of
            r.is_some() ==> exists|k: int, e: int| #[trigger] meta_entry_at(old(self).rem(), k, e) && final(self).blk() == old(self).rem().subrange(k, e),     // [C14]
enter:
        hide(toks_ok);
        broadcast use BlockParser::lemma_resolved;
        let ghost r0 = old(self).rem();
        let ghost mut k: int = 0;     // tokens skipped before the `>>`
        proof { assert(r0.skip(0) =~= r0); }
loop 0:
            invariant self.wf(), self.ctx_same(old(self)), self.q() == old(self).q(), r0 == old(self).rem(), toks_ok(r0),
                0 <= k <= r0.len(), self.rem() == r0.skip(k), self.blk().len() == 0,
                last == (if k == 0 { TokenKind::Newline } else { r0[k - 1].kind }), no_meta_before(r0, k),     // [C14]
            ensures self.rem().len() > 0, self.rem()[0].kind == TokenKind::MetadataStart,
                0 <= k < r0.len(), self.rem() == r0.skip(k), r0[k].kind == TokenKind::MetadataStart, at_line_start(r0, k), no_meta_before(r0, k),     // [C14]
            decreases self.fuel()
after `self.tokens.next();`:
            proof { assert(r0.skip(k).drop_first() =~= r0.skip(k + 1)); k = k + 1; }
before `for tok in self.tokens.by_ref() {`:
        let ghost mut n: int = 0;     // tokens of the entry
        proof { assert(r0.subrange(k, k) =~= Seq::<Token>::empty()); lemma_rng_empty(r0, k, k); }
loop 1:
            invariant_except_break
                self.rem() == r0.skip(k + n), n == 0 ==> self.rem().len() > 0 && self.rem()[0].kind == TokenKind::MetadataStart,
                no_newline(r0, k, k + n),     // [C14]
                vstd::std_specs::iter::IteratorSpec::decrease(&self.tokens).is_some(),
            invariant
                vstd::std_specs::iter::IteratorSpec::obeys_prophetic_iter_laws(&self.tokens), self.input.spec_bytes() == the_input(),
                self.ctx_same(old(self)), self.q() == old(self).q(), r0 == old(self).rem(), toks_ok(r0),
                0 <= n, 0 <= k, k + n <= r0.len(),
                self.blk() == r0.subrange(k, k + n),      // [C03] [C05] the entry's tokens, `>>` included, are stored (the block parser needs a non-empty block)
            ensures self.wf(), exists|m: int| 0 <= m <= r0.len() && self.rem() == #[trigger] r0.skip(m),
                is_line(r0, k, k + n),     // [C14] the entry ends at the end of its line
                n > 0,     // [C03] the entry holds at least its `>>` token: the block parser is never created over an empty block
            decreases self.fuel()
loopbody 1:
            let ghost j = n;
            proof {
                assert(r0.skip(k + j).len() > 0);
                assert(r0.skip(k + j).drop_first() =~= r0.skip(k + j + 1));
                assert(tok == r0[k + j]);
                lemma_rng_join(r0, k, k + j, k + j + 1); lemma_rng_one(r0, k + j);
            }
after `self.block.push(tok);`:
            proof { n = j + 1; assert(r0.subrange(k, k + j + 1) =~= r0.subrange(k, k + j).push(r0[k + j])); }
before `let mut bp = BlockParser::new(&self.block, self.input, &mut self.queue, self.extensions);`:
        proof {
            lemma_sub_ok(r0, k, k + n);
            lemma_tok(self.blk(), 0);
            broadcast use axiom_str_len_bound;
        }
after `let mut bp = BlockParser::new(&self.block, self.input, &mut self.queue, self.extensions);`:
        let ghost bp0 = bp;
before `bp.event(ev);`:
            let ghost mid = bp;
after `bp.event(ev);`:
            proof { lemma_grown_push(mid.evs(), ev); lemma_grown_trans(bp.evs(), mid.evs(), bp0.evs()); }
after `bp.finish(); // only finish if a metadata is parsed, as other blocks are not consumed`:
            proof { assert(ev_grown(self.q(), old(self).q())); }
before `Some(())`:
        proof { assert(bp0.evs() == old(self).q()); assert(bp0.fin() == self.q()); assert(meta_entry_at(r0, k, k + n)); }
@*/
}
} // verus!
} // mod parser_fns

pub mod analysis {
use vstd::prelude::*;
use std::collections::HashMap;
use crate::*;
use crate::error::{SourceDiag, Severity};
use crate::located::Located;
use crate::quantity::Value;
use crate::span::Span;
use crate::text::Text;
use crate::parser_model as parser;
/*@ macro src/analysis/event_consumer.rs warning
@*/
verus! {
/*@ type src/quantity.rs ScalableValue
derive
@*/
/*@ type src/quantity.rs Quantity
derive
rewrite `pub struct Quantity<V: QuantityValue = Value> {` => `pub struct Quantity<V = Value> {`
rewrite `pub(crate) value: V,` => `pub value: V,`
rewrite `pub(crate) unit: Option<String>,` => `pub unit: Option<String>,`
@*/
impl<V> Quantity<V> {
/*@ fn src/quantity.rs Quantity::new
tags C08
ret r
spec:
        ensures r.value == value, r.unit == unit
@*/
}
impl Value {
    // X2: `impl QuantityValue for Value { fn is_text }` checked as an inherent method
/*@ fn src/quantity.rs <QuantityValue~for~Value>::is_text
tags C08
ret r
spec:
        ensures r == (*self is Text)
@*/
}
// TRUSTED stand-ins: the fields of the collector that `value` never touches are opaque types (no operation on them is used
// or assumed); the report is opaque too and `SourceReport::warn` is an assumed stub whose precondition is its own debug assertion
#[verifier::external_body] pub struct Converter { _p: () }
#[verifier::external_body] pub struct ParseOptions<'c> { _p: &'c () }
#[verifier::external_body] pub struct ScalableRecipe { _p: () }
#[verifier::external_body] pub struct Section { _p: () }
#[verifier::external_body] pub struct DefineMode { _p: () }
#[verifier::external_body] pub struct DuplicateMode { _p: () }
#[verifier::external_body] pub struct Locations<'i> { _p: &'i () }
#[verifier::external_body] pub struct SourceReport { _p: () }
impl SourceReport {
    /// severities of the diagnostics reported so far
    pub uninterp spec fn sevs(&self) -> Seq<Severity>;
/*@ fn src/error.rs SourceReport::warn stub
spec:
        requires w.sev() == Severity::Warning      // [C03] [C07] the debug assertion inside `warn` (and `push`)
        ensures final(self).sevs() == old(self).sevs().push(Severity::Warning)
@*/
}
/*@ type src/analysis/event_consumer.rs RecipeCollector
derive
@*/
impl<'i> RecipeCollector<'i, '_> {
    pub closed spec fn rep(&self) -> Seq<Severity> { self.ctx.sevs() }
/*@ fn src/analysis/event_consumer.rs RecipeCollector::value
tags C08 C07 C03
ret r
spec:
        requires value.value.sp().ok()     // [C04] the value comes from the parser with a reportable span (pq_ok)
        ensures
            // [C08] exactly the numeric, unlocked quantities of ingredients are marked as scaling linearly; the value itself is kept
            (is_ingredient && !(value.value.val() is Text) && value.scaling_lock.is_none()) ==> r == ScalableValue::Linear(value.value.val()),
            !(is_ingredient && !(value.value.val() is Text) && value.scaling_lock.is_none()) ==> r == ScalableValue::Fixed(value.value.val()),
            // [C07] a warning is reported exactly when a scaling lock is written where it has no effect, and nothing else is reported
            (value.scaling_lock.is_some() && !(is_ingredient && !(value.value.val() is Text))) ==> final(self).rep() == old(self).rep().push(Severity::Warning),
            !(value.scaling_lock.is_some() && !(is_ingredient && !(value.value.val() is Text))) ==> final(self).rep() == old(self).rep(),
@*/
/*@ fn src/analysis/event_consumer.rs RecipeCollector::quantity
tags C08 C07 C03
ret r
inline map 0
spec:
        requires quantity.val().value.value.sp().ok()     // [C04] pq_ok of the parsed quantity
        ensures
            // [C08] the value is classified by `value` and the unit is kept exactly when one was written
            (is_ingredient && !(quantity.val().value.value.val() is Text) && quantity.val().value.scaling_lock.is_none())
                ==> r.value == ScalableValue::Linear(quantity.val().value.value.val()),
            !(is_ingredient && !(quantity.val().value.value.val() is Text) && quantity.val().value.scaling_lock.is_none())
                ==> r.value == ScalableValue::Fixed(quantity.val().value.value.val()),
            r.unit.is_some() == quantity.val().unit.is_some(),
@*/
}
} // verus!
} // mod analysis

pub mod ast {
use vstd::prelude::*;
use vstd::std_specs::iter::IteratorSpec;
use crate::*;
use crate::parser_ev::{Event, BlockKind};
use crate::parser_model::*;
use crate::located::Located;
use crate::text::Text;
verus! {
// TRUSTED: core::mem::take returns the old value and leaves T::default() behind
pub assume_specification<T: Default>[ core::mem::take::<T> ](dest: &mut T) -> (r: T)
    ensures r == *old(dest), call_ensures(<T as Default>::default, (), *final(dest));
/*@ type src/parser/model.rs Block
derive
@*/
/*@ type src/parser/model.rs Item
derive
@*/
/*@ type src/ast.rs Ast
derive
@*/
// TRUSTED stand-ins: SourceReport / PassResult are opaque containers here (src/error.rs)
#[verifier::external_body] pub struct SourceReport { _p: () }
impl SourceReport {
    #[verifier::external_body] pub fn empty() -> Self { unimplemented!() }
    #[verifier::external_body] pub fn push(&mut self, err: crate::error::SourceDiag) { unimplemented!() }
}
#[verifier::external_body] #[verifier::reject_recursive_types(T)] pub struct PassResult<T> { _p: core::marker::PhantomData<T> }
impl<T> PassResult<T> {
    #[verifier::external_body] pub fn new(output: Option<T>, report: SourceReport) -> Self { unimplemented!() }
}
/// an event that pushes a non-text item
pub open spec fn pushes_non_text<'i>(e: Event<'i>) -> bool { e is Ingredient || e is Cookware || e is Timer }
/// the block grammar of the pull parser's stream that build_ast relies on: between the Start that opens a text
/// paragraph and its End(Text) no component event occurs (parse_text_block only queues Text events)
#[verifier::opaque]
pub open spec fn text_blocks_ok<'i>(evs: Seq<Event<'i>>) -> bool {
    forall|j: int| 0 <= j < evs.len() && (#[trigger] evs[j] matches Event::End(BlockKind::Text)) ==>
        exists|i: int| 0 <= i < j && (#[trigger] evs[i] is Start) && forall|k: int| i < k < j ==> !pushes_non_text(#[trigger] evs[k]) && !(evs[k] is Start)
}
pub open spec fn all_text<'i>(items: Seq<Item<'i>>) -> bool { forall|j: int| 0 <= j < items.len() ==> (#[trigger] items[j]) is Text }
/// since the last Start before index k, no component event was queued
#[verifier::opaque]
pub open spec fn clean_since_start<'i>(evs: Seq<Event<'i>>, k: int) -> bool {
    exists|ls: int| 0 <= ls < k && (#[trigger] evs[ls] is Start) && forall|j: int| ls < j < k ==> !pushes_non_text(#[trigger] evs[j]) && !(evs[j] is Start)
}
pub proof fn lemma_clean_step<'i>(evs: Seq<Event<'i>>, k: int)
    requires 0 <= k < evs.len()
    ensures (clean_since_start(evs, k + 1) && !(evs[k] is Start)) ==> (clean_since_start(evs, k) && !pushes_non_text(evs[k])),
        !clean_since_start(evs, 0),
{
    reveal(clean_since_start);
    if clean_since_start(evs, k + 1) && !(evs[k] is Start) {
        let ls = choose|ls: int| 0 <= ls < k + 1 && (#[trigger] evs[ls] is Start) && forall|j: int| ls < j < k + 1 ==> !pushes_non_text(#[trigger] evs[j]) && !(evs[j] is Start);
        assert(ls < k);
        assert(forall|j: int| ls < j < k ==> !pushes_non_text(#[trigger] evs[j]) && !(evs[j] is Start));
    }
}
pub proof fn lemma_end_text<'i>(evs: Seq<Event<'i>>, k: int)
    requires 0 <= k < evs.len()
    ensures (text_blocks_ok(evs) && (evs[k] matches Event::End(BlockKind::Text))) ==> clean_since_start(evs, k)
{ reveal(clean_since_start); reveal(text_blocks_ok); }
pub proof fn lemma_clean0<'i>(evs: Seq<Event<'i>>) ensures !clean_since_start(evs, 0) { reveal(clean_since_start); }
/*@ fn src/ast.rs build_ast
tags C03
ret r
desugar_for 0
attr #[verifier::spinoff_prover]
spec:
    requires events.obeys_prophetic_iter_laws(), events.decrease().is_some(),
        // the block grammar of the pull parser's event stream (parse_text_block queues only Text between Start and End(Text))
        text_blocks_ok(events.remaining()),
before `for event in events {`:
    let ghost mut idx: int = 0;      // number of events consumed so far
    proof { assert(events.remaining().skip(0) =~= events.remaining()); lemma_clean0(events.remaining()); }
loop 0:
        invariant __it0.obeys_prophetic_iter_laws(), __it0.decrease().is_some(),
            text_blocks_ok(events.remaining()),
            0 <= idx <= events.remaining().len(), __it0.remaining() == events.remaining().skip(idx),
            clean_since_start(events.remaining(), idx) ==> all_text(items@),
        decreases __it0.decrease().unwrap()
loopbody 0:
        let ghost k = idx;
        proof {
            let evs = events.remaining();
            assert(evs.skip(k).len() > 0);
            assert(evs.skip(k).drop_first() =~= evs.skip(k + 1));
            assert(evs.skip(k)[0] == evs[k]);
            assert(event == evs[k]);
            idx = k + 1;
            lemma_clean_step(evs, k);
            lemma_end_text(evs, k);
        }
closure @ `|i| {` `Item<'i>` ret `t: Text<'i>`:
        requires i is Text
@*/
} // verus!
// stand-in Debug impl (panic message formatting is not part of any contract)
impl std::fmt::Debug for Item<'_> { fn fmt(&self, f: &mut std::fmt::Formatter<'_>) -> std::fmt::Result { f.write_str("Item") } }
} // mod ast

fn main() {}
