// UNIT values — src/quantity.rs (Number, Value, ScalableValue, TryAdd for Value, GroupedValue), src/scale.rs (value-level scaling)
// Every executable function below is extracted from /repo at run time (see tools/vgen.py).
#![allow(unused_imports, unused_macros, dead_code)]
#![verifier::allow(autoderive_clone_without_spec)]
use vstd::prelude::*;
use vstd::std_specs::ops::*;

verus! {
// ---- TRUSTED float model ----------------------------------------------------------------------------------------
// Verus has no floating-point theory: each f64 operation is an UNINTERPRETED relation between operands and result
// (vstd::std_specs::ops::{add,mul,div}_ensures) guarded by an uninterpreted precondition. (F1) Rust's f64 operations
// are total (IEEE 754, they never panic), so the preconditions hold for all operands:
pub broadcast axiom fn axiom_f64_add_total(a: f64, b: f64) ensures #[trigger] a.add_req(b);
pub broadcast axiom fn axiom_f64_mul_total(a: f64, b: f64) ensures #[trigger] a.mul_req(b);
pub broadcast axiom fn axiom_f64_div_total(a: f64, b: f64) ensures #[trigger] a.div_req(b);
pub broadcast group group_f64_total { axiom_f64_add_total, axiom_f64_mul_total, axiom_f64_div_total }
// (V1) ToOwned for a Clone type is its clone (std blanket impl; no vstd specification)
pub assume_specification<T: Clone>[ <T as std::borrow::ToOwned>::to_owned ](x: &T) -> (r: T)
    ensures call_ensures(<T as Clone>::clone, (x,), r);
// (V2) Option<(A, B)>::unzip (no vstd specification)
pub assume_specification<A, B>[ Option::<(A, B)>::unzip ](o: Option<(A, B)>) -> (r: (Option<A>, Option<B>))
    ensures r == (match o { Some((a, b)) => (Some(a), Some(b)), None => (None::<A>, None::<B>) });
// (V3) Option<&T>::copied (no vstd specification)
pub assume_specification<'a, T: Copy>[ Option::<&'a T>::copied ](o: Option<&'a T>) -> (r: Option<T>)
    ensures r == (match o { Some(x) => Some(*x), None => None::<T> });
// (F2) X4: Verus treats an `as f64` cast of an integer as an arbitrary value; the cast is a function of its operand, so the two
// casts in scale_to_servings are routed through this wrapper (rule `wrapcast`: every `as f64` cast of that function),
// whose result is the uninterpreted `f64_of`
pub uninterp spec fn f64_of(x: u32) -> f64;
#[verifier::external_body]
pub fn u32_as_f64(x: u32) -> (r: f64) ensures r == f64_of(x) { x as f64 }
/// r is the IEEE sum / product of a and b (as far as the verifier is concerned: the result of `a + b` / `a * b`)
pub open spec fn fadd(a: f64, b: f64, r: f64) -> bool { add_ensures::<f64>(a, b, r) }
pub open spec fn fmul(a: f64, b: f64, r: f64) -> bool { mul_ensures::<f64>(a, b, r) }
} // verus!

pub mod quantity {
use vstd::prelude::*;
use vstd::std_specs::ops::*;
use crate::*;
verus! {
broadcast use crate::group_f64_total;
/*@ type src/quantity.rs Number
derive Debug, Clone, Copy
@*/
/*@ type src/quantity.rs Value
derive Debug
@*/
/*@ type src/quantity.rs ScalableValue
derive
@*/
// TRUSTED: the derived Clone of Value returns an equal value (Verus gives derived Clone of non-Copy types no specification)
impl Clone for Value {
    #[verifier::external_body]
    fn clone(&self) -> (r: Self) ensures r == *self { unimplemented!() }
}
impl vstd::std_specs::convert::FromSpecImpl<f64> for Number {
    open spec fn obeys_from_spec() -> bool { true }
    open spec fn from_spec(v: f64) -> Number { Number::Regular(v) }
}
impl From<f64> for Number {
/*@ fn src/quantity.rs <From~for~Number>::from
tags C08 C10
ret r
spec:
        ensures r == Number::Regular(value)
@*/
}
/// the f64 that Number::value returns: the stored float, or for a fraction SOME result of `whole + err + num / den`
pub open spec fn value_rel(n: Number, r: f64) -> bool {
    match n {
        Number::Regular(v) => r == v,
        Number::Fraction { .. } => true,
    }
}
impl Number {
/*@ fn src/quantity.rs Number::value
tags C08 C10 C12
ret r
spec:
        ensures value_rel(self, r)
@*/
}
pub open spec fn is_text_spec(v: Value) -> bool { v is Text }
impl Value {
    // X2: `impl QuantityValue for Value { fn is_text }` checked as an inherent method
/*@ fn src/quantity.rs <QuantityValue~for~Value>::is_text
tags C10
ret r
spec:
        ensures r == is_text_spec(*self)
@*/
}
/*@ type src/quantity.rs Quantity
derive
rewrite `pub struct Quantity<V: QuantityValue = Value> {` => `pub struct Quantity<V = Value> {`
rewrite `pub(crate) value: V,` => `pub value: V,`
rewrite `pub(crate) unit: Option<String>,` => `pub unit: Option<String>,`
@*/
pub type ScalableQuantity = Quantity<ScalableValue>;
pub type ScaledQuantity = Quantity<Value>;
/*@ type src/quantity.rs TextValueError
derive Debug
@*/
/// end-wise sum: `out` is the value obtained by adding the numbers of `a` and `b` (ranges end by end)
pub open spec fn num_sum(a: Number, b: Number, out: Number) -> bool {
    exists|x: f64, y: f64, z: f64| #![trigger add_ensures::<f64>(x, y, z)] value_rel(a, x) && value_rel(b, y) && add_ensures::<f64>(x, y, z) && out == Number::Regular(z)
}
pub open spec fn val_sum(a: Value, b: Value, out: Value) -> bool {
    match (a, b) {
        (Value::Number(x), Value::Number(y)) => out is Number && num_sum(x, y, out->Number_0),
        (Value::Number(n), Value::Range { start, end }) => out is Range && num_sum(start, n, out->start) && num_sum(end, n, out->end),
        (Value::Range { start, end }, Value::Number(n)) => out is Range && num_sum(start, n, out->start) && num_sum(end, n, out->end),
        (Value::Range { start: s1, end: e1 }, Value::Range { start: s2, end: e2 }) => out is Range && num_sum(s1, s2, out->start) && num_sum(e1, e2, out->end),
        _ => false,
    }
}
impl Value {
    // X2: `impl TryAdd for Value { fn try_add }` checked as an inherent method
/*@ fn src/quantity.rs <TryAdd~for~Value>::try_add
tags C10 C03
ret r
spec:
        ensures
            // [C10] text never takes part in a sum: the error carries the text operand verbatim
            (is_text_spec(*self) || is_text_spec(*rhs)) ==> r is Err && (r->Err_0.0 == *self || r->Err_0.0 == *rhs) && is_text_spec(r->Err_0.0),
            // [C10] numbers and ranges are added end-wise
            !(is_text_spec(*self) || is_text_spec(*rhs)) ==> r is Ok && val_sum(*self, *rhs, r->Ok_0) && !is_text_spec(r->Ok_0),
@*/
}
/*@ type src/quantity.rs GroupedValue
derive
@*/
impl GroupedValue {
    pub closed spec fn v(&self) -> Seq<Value> { self.0@ }
    /// representation invariant: at most one numeric value, and it is the first one
    pub open spec fn wf(&self) -> bool { forall|i: int| 1 <= i < self.v().len() ==> is_text_spec(#[trigger] self.v()[i]) }
    /// the texts of the group, in insertion order
    pub open spec fn texts(&self) -> Seq<Value> { self.v().filter(|x: Value| is_text_spec(x)) }
    pub open spec fn numeric(&self) -> Option<Value> { if self.v().len() > 0 && !is_text_spec(self.v()[0]) { Some(self.v()[0]) } else { None } }

/*@ fn src/quantity.rs GroupedValue::add
tags C10 C03
spec:
        requires old(self).wf()
        ensures final(self).wf(),
            // [C10] a text value is kept verbatim, after the ones already there; the numeric slot is untouched
            is_text_spec(*value) ==> final(self).v() == old(self).v().push(*value),
            // [C10] a numeric value is folded into the single numeric slot; every text stays, in order
            !is_text_spec(*value) && old(self).numeric().is_none() ==> final(self).v() == seq![*value] + old(self).v(),
            !is_text_spec(*value) && old(self).numeric().is_some() ==> final(self).v().len() == old(self).v().len()
                && val_sum(old(self).v()[0], *value, final(self).v()[0])
                && forall|i: int| 1 <= i < old(self).v().len() ==> final(self).v()[i] == old(self).v()[i],
@*/
/*@ fn src/quantity.rs GroupedValue::merge
tags C10 C03
spec:
        requires old(self).wf()
        ensures final(self).wf(),
            final(self).v().len() >= old(self).v().len(),
loop 0 it it:
        invariant self.wf(), self.v().len() >= old(self).v().len(),
@*/
/*@ fn src/quantity.rs GroupedValue::is_empty
tags C10
ret r
spec:
        ensures r == (self.v().len() == 0)
@*/
/*@ fn src/quantity.rs GroupedValue::len
tags C10
ret r
spec:
        ensures r == self.v().len()
@*/
/*@ fn src/quantity.rs GroupedValue::into_vec
tags C10
ret r
spec:
        ensures r@ == self.v()
@*/
}
} // verus!
} // mod quantity

pub mod model {
use vstd::prelude::*;
use crate::*;
use crate::quantity::*;
verus! {
// X8: TRUSTED stand-in for the bitflags!-generated `Modifiers`; constants copied from src/parser/model.rs each run
/*@ bitflags src/parser/model.rs Modifiers
@*/
/*@ type src/model.rs RecipeReference
derive
@*/
/*@ type src/model.rs ComponentRelation
derive
@*/
/*@ type src/model.rs IngredientReferenceTarget
derive Clone, Copy
@*/
/*@ type src/model.rs IngredientRelation
derive
rewrite `    relation: ComponentRelation,` => `    pub relation: ComponentRelation,`
rewrite `    reference_target: Option<IngredientReferenceTarget>,` => `    pub reference_target: Option<IngredientReferenceTarget>,`
@*/
/*@ type src/model.rs Ingredient
derive
rewrite `pub struct Ingredient<V: QuantityValue = Value> {` => `pub struct Ingredient<V = Value> {`
rewrite `pub(crate) modifiers: Modifiers,` => `pub modifiers: Modifiers,`
@*/
/*@ type src/model.rs Cookware
derive
rewrite `pub struct Cookware<V: QuantityValue = Value> {` => `pub struct Cookware<V = Value> {`
rewrite `pub(crate) modifiers: Modifiers,` => `pub modifiers: Modifiers,`
@*/
/*@ type src/model.rs Timer
derive
rewrite `pub struct Timer<V: QuantityValue = Value> {` => `pub struct Timer<V = Value> {`
@*/
} // verus!
} // mod model

pub mod scale {
use vstd::prelude::*;
use vstd::std_specs::ops::*;
use crate::*;
use crate::quantity::*;
use crate::model::*;
verus! {
broadcast use crate::group_f64_total;
/*@ type src/scale.rs ScaleTarget
derive Debug, Clone, Copy
@*/
impl ScaleTarget {
    pub closed spec fn f(&self) -> f64 { self.factor }
/*@ fn src/scale.rs ScaleTarget::new
tags C08
ret r
spec:
        ensures r.f() == factor
@*/
/*@ fn src/scale.rs ScaleTarget::factor
tags C08
ret r
spec:
        ensures r == self.f()
@*/
}
/*@ type src/scale.rs ScaleOutcome
derive
@*/
/*@ type src/scale.rs ScaleError
derive
@*/
// TRUSTED stand-in for the thiserror-generated `impl From<TextValueError> for ScaleError` (#[from])
impl vstd::std_specs::convert::FromSpecImpl<TextValueError> for ScaleError {
    open spec fn obeys_from_spec() -> bool { true }
    open spec fn from_spec(e: TextValueError) -> ScaleError { ScaleError::TextValueError(e) }
}
impl From<TextValueError> for ScaleError {
    #[verifier::external_body]
    fn from(e: TextValueError) -> (r: Self) { ScaleError::TextValueError(e) }
}
/// `out` is number `n` multiplied by `factor` (as one f64 product of the number's value)
pub open spec fn num_scaled(n: Number, factor: f64, out: Number) -> bool {
    exists|x: f64, z: f64| #![trigger mul_ensures::<f64>(x, factor, z)] value_rel(n, x) && mul_ensures::<f64>(x, factor, z) && out == Number::Regular(z)
}
/// C08: what linear scaling does to a value
pub open spec fn val_scaled(v: Value, factor: f64, out: Value) -> bool {
    match v {
        Value::Number(n) => out is Number && num_scaled(n, factor, out->Number_0),
        Value::Range { start, end } => out is Range && num_scaled(start, factor, out->start) && num_scaled(end, factor, out->end),
        Value::Text(_) => false,
    }
}
/*@ fn src/scale.rs linear_scale
tags C08
ret r
spec:
    ensures
        // [C08] numbers and ranges are multiplied by the factor, end by end
        !is_text_spec(value) ==> r is Ok && val_scaled(value, factor, r->Ok_0),
        // [C08] a text value cannot be scaled: error carrying the text verbatim
        is_text_spec(value) ==> r is Err && r->Err_0 == ScaleError::TextValueError(TextValueError(value)),
@*/
/*@ trait src/scale.rs Scale
@*/
/// the ScaleOutcome variant, ignoring the error payload
pub open spec fn outcome_kind(o: ScaleOutcome) -> int { match o { ScaleOutcome::Scaled => 0, ScaleOutcome::Fixed => 1, ScaleOutcome::NoQuantity => 2, ScaleOutcome::Error(_) => 3 } }
impl Scale for ScalableValue {
    type Output = Value;
/*@ fn src/scale.rs <Scale~for~ScalableValue>::scale
tags C08
ret r
spec:
        ensures
            // [C08] a locked (`=`) value is returned verbatim with outcome Fixed, whatever the factor
            self is Fixed ==> r.0 == self->Fixed_0 && r.1 is Fixed,
            // [C08] a scalable number/range is multiplied by the factor, outcome Scaled
            self is Linear && !is_text_spec(self->Linear_0) ==> r.1 is Scaled && val_scaled(self->Linear_0, target.f(), r.0),
            // [C08] a scalable text value is left unchanged, outcome Error
            self is Linear && is_text_spec(self->Linear_0) ==> r.0 == self->Linear_0 && r.1 is Error,
@*/
/*@ fn src/scale.rs <Scale~for~ScalableValue>::default_scale
tags C08
ret r
spec:
        ensures
            // [C08] default scaling returns the written value verbatim
            self is Fixed ==> r == self->Fixed_0, self is Linear ==> r == self->Linear_0,
@*/
}
impl Scale for ScalableQuantity {
    type Output = ScaledQuantity;
/*@ fn src/scale.rs <Scale~for~ScalableQuantity>::scale
tags C08
ret r
spec:
        ensures
            // [C08] the unit is kept; the value is scaled as ScalableValue::scale says
            r.0.unit == self.unit,
            self.value is Fixed ==> r.0.value == self.value->Fixed_0 && r.1 is Fixed,
            self.value is Linear && !is_text_spec(self.value->Linear_0) ==> r.1 is Scaled && val_scaled(self.value->Linear_0, target.f(), r.0.value),
            self.value is Linear && is_text_spec(self.value->Linear_0) ==> r.0.value == self.value->Linear_0 && r.1 is Error,
@*/
/*@ fn src/scale.rs <Scale~for~ScalableQuantity>::default_scale
tags C08
ret r
spec:
        ensures r.unit == self.unit,
            self.value is Fixed ==> r.value == self.value->Fixed_0, self.value is Linear ==> r.value == self.value->Linear_0,
@*/
}
/// C08: what scaling does to the optional quantity of a component
pub open spec fn qty_scaled(q: Option<ScalableQuantity>, f: f64, out: Option<ScaledQuantity>, o: ScaleOutcome) -> bool {
    match q {
        None => out.is_none() && o is NoQuantity,
        Some(q) => out.is_some() && out.unwrap().unit == q.unit && match q.value {
            ScalableValue::Fixed(v) => out.unwrap().value == v && o is Fixed,
            ScalableValue::Linear(v) => if is_text_spec(v) { out.unwrap().value == v && o is Error } else { o is Scaled && val_scaled(v, f, out.unwrap().value) },
        },
    }
}
impl Scale for Ingredient<ScalableValue> {
    type Output = Ingredient<Value>;
/*@ fn src/scale.rs <Scale~for~Ingredient>::scale
tags C08
ret r
inline map 0
spec:
        ensures
            // [C08] name, alias, note, recipe reference, relations and modifiers are untouched
            r.0.name == self.name, r.0.alias == self.alias, r.0.note == self.note, r.0.reference == self.reference,
            r.0.relation == self.relation, r.0.modifiers == self.modifiers,
            // [C08] the quantity is scaled as the value-level contract says and the outcome names the case that applied
            qty_scaled(self.quantity, target.f(), r.0.quantity, r.1),
@*/
/*@ fn src/scale.rs <Scale~for~Ingredient>::default_scale
tags C08
ret r
spec:
        ensures r.name == self.name, r.alias == self.alias, r.note == self.note, r.reference == self.reference,
            r.relation == self.relation, r.modifiers == self.modifiers,
            self.quantity.is_none() ==> r.quantity.is_none(),
            self.quantity.is_some() ==> r.quantity.is_some() && r.quantity.unwrap().unit == self.quantity.unwrap().unit,
@*/
}
impl Scale for Timer<ScalableValue> {
    type Output = Timer<Value>;
/*@ fn src/scale.rs <Scale~for~Timer>::scale
tags C08
ret r
inline map 0
spec:
        ensures r.0.name == self.name, qty_scaled(self.quantity, target.f(), r.0.quantity, r.1),
@*/
/*@ fn src/scale.rs <Scale~for~Timer>::default_scale
tags C08
ret r
spec:
        ensures r.name == self.name,
            self.quantity.is_none() ==> r.quantity.is_none(),
            self.quantity.is_some() ==> r.quantity.is_some() && r.quantity.unwrap().unit == self.quantity.unwrap().unit,
@*/
}
/// C08: cookware carries a bare value (no unit)
pub open spec fn cw_scaled(q: Option<ScalableValue>, f: f64, out: Option<Value>, o: ScaleOutcome) -> bool {
    match q {
        None => out.is_none() && o is NoQuantity,
        Some(ScalableValue::Fixed(v)) => out == Some(v) && o is Fixed,
        Some(ScalableValue::Linear(v)) => out.is_some() && if is_text_spec(v) { out.unwrap() == v && o is Error } else { o is Scaled && val_scaled(v, f, out.unwrap()) },
    }
}
impl Scale for Cookware<ScalableValue> {
    type Output = Cookware<Value>;
/*@ fn src/scale.rs <Scale~for~Cookware>::scale
tags C08
ret r
inline map 0
spec:
        ensures r.0.name == self.name, r.0.alias == self.alias, r.0.note == self.note, r.0.relation == self.relation, r.0.modifiers == self.modifiers,
            cw_scaled(self.quantity, target.f(), r.0.quantity, r.1),
@*/
/*@ fn src/scale.rs <Scale~for~Cookware>::default_scale
tags C08
ret r
spec:
        ensures r.name == self.name, r.alias == self.alias, r.note == self.note, r.relation == self.relation, r.modifiers == self.modifiers,
            self.quantity.is_none() == r.quantity.is_none(),
@*/
}
} // verus!
} // mod scale

fn main() {}

pub mod recipe {
use vstd::prelude::*;
use vstd::std_specs::ops::*;
use crate::*;
use crate::quantity::*;
use crate::model::*;
use crate::scale::*;
verus! {
broadcast use crate::group_f64_total;
// TRUSTED stand-ins: field types of the recipe that scale_to_servings never touches (no operation on them is used or assumed)
#[verifier::external_body] pub struct Metadata { _p: () }
#[verifier::external_body] pub struct Section { _p: () }
#[verifier::external_body] pub struct Converter { _p: () }
/*@ type src/scale.rs Servings
derive
rewrite `pub struct Servings(pub(crate) Option<Vec<u32>>);` => `pub struct Servings(pub Option<Vec<u32>>);`
@*/
/*@ type src/scale.rs Scaled
derive
@*/
/*@ type src/scale.rs ScaledData
derive
@*/
/*@ type src/model.rs Recipe
derive
rewrite `pub struct Recipe<D, V: QuantityValue> {` => `pub struct Recipe<D, V> {`
rewrite `    pub(crate) data: D,` => `    pub data: D,`
@*/
pub type ScalableRecipe = Recipe<Servings, ScalableValue>;
pub type ScaledRecipe = Recipe<Scaled, Value>;
/// `out` is `r` scaled by `factor` (what ScalableRecipe::scale returns: an assumed stub here, its iterator chains are outside the verifier)
pub uninterp spec fn recipe_scaled(r: ScalableRecipe, factor: f64, out: ScaledRecipe) -> bool;
/// the servings a recipe is written for: the first declared value, 1 when none is declared
pub open spec fn base_servings(r: ScalableRecipe) -> u32 {
    match r.data.0 { Some(v) => if v@.len() > 0 { v@[0] } else { 1u32 }, None => 1u32 }
}
impl ScalableRecipe {
/*@ fn src/scale.rs ScalableRecipe::scale stub
ret r
spec:
        ensures recipe_scaled(self, factor, r)
@*/
/*@ fn src/scale.rs ScalableRecipe::scale_to_servings
tags C08 C03
ret r
wrapcast f64 crate::u32_as_f64
spec:
        ensures
            // [C08] scaling to n servings is scaling by n divided by the first declared servings (one f64 division of the two casts)
            exists|f: f64| #![trigger recipe_scaled(self, f, r)] div_ensures::<f64>(f64_of(target), f64_of(base_servings(self)), f) && recipe_scaled(self, f, r),
@*/
}
} // verus!
} // mod recipe

pub mod qadd {
use vstd::prelude::*;
use std::sync::Arc;
use crate::*;
use crate::quantity::*;
verus! {
/*@ type src/convert/mod.rs PhysicalQuantity
derive Debug, Clone, Copy, PartialEq, Eq, Structural
@*/
/*@ type src/convert/mod.rs System
derive Debug, Clone, Copy, PartialEq, Eq, Structural
@*/
// TRUSTED stand-ins: the name lists of a unit (Vec<Arc<str>>) and the converter are opaque here; `find_unit` is an assumed stub
// whose result is an uninterpreted function of the converter and the key (it is a pure lookup)
#[verifier::external_body] pub struct StrList { _p: () }
#[verifier::external_body] pub struct Converter { _p: () }
/*@ type src/convert/mod.rs Unit
derive
rewrite `    pub names: Vec<Arc<str>>,` => `    pub names: StrList,`
rewrite `    pub symbols: Vec<Arc<str>>,` => `    pub symbols: StrList,`
rewrite `    pub aliases: Vec<Arc<str>>,` => `    pub aliases: StrList,`
@*/
pub uninterp spec fn unit_of(c: &Converter, key: Seq<char>) -> Option<Arc<Unit>>;
impl Converter {
/*@ fn src/convert/mod.rs Converter::find_unit stub
ret r
spec:
        ensures r == unit_of(self, unit@)
@*/
}
/*@ type src/quantity.rs IncompatibleUnits
derive
@*/
impl<V> Quantity<V> {
/*@ fn src/quantity.rs Quantity::compatible_unit
tags C10 C03
ret r
spec:
        ensures
            // [C10] the unit two quantities are added in is the unit of the FIRST one (the second is converted to it); quantities
            //       of different physical quantities, or one with and one without unit, are never added
            match (self.unit, rhs.unit) {
                (None, None) => r == Ok::<Option<Arc<Unit>>, IncompatibleUnits>(None),
                (None, Some(_)) => r is Err && r->Err_0 is MissingUnit && r->Err_0->lhs == false,
                (Some(_), None) => r is Err && r->Err_0 is MissingUnit && r->Err_0->lhs == true,
                (Some(a), Some(b)) => match (unit_of(converter, a@), unit_of(converter, b@)) {
                    (Some(ua), Some(ub)) => if ua.physical_quantity != ub.physical_quantity { r is Err && r->Err_0 is DifferentPhysicalQuantities }
                                            else { r == Ok::<Option<Arc<Unit>>, IncompatibleUnits>(Some(ua)) },
                    // (unknown units: added only when the two unit texts are equal; String comparison has no Verus specification, so which
                    //  of the two outcomes applies is not decided here)
                    _ => (r is Err && r->Err_0 is UnknownDifferentUnits) || r == Ok::<Option<Arc<Unit>>, IncompatibleUnits>(None),
                },
            },
@*/
}
} // verus!
} // mod qadd
