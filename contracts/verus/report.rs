// UNIT report — src/error.rs: SourceDiag severity predicates, SourceReport bookkeeping, PassResult validity (C07: "a result is
// valid exactly when it has output and no error").  Every executable function below is extracted from /repo at run time.
#![allow(unused_imports, unused_macros, dead_code)]
#![verifier::allow(autoderive_clone_without_spec)]
use vstd::prelude::*;
// X3 macro shadow: same truth condition, message formatting dropped
macro_rules! debug_assert_eq { ($a:expr, $b:expr $(, $($rest:tt)*)?) => { debug_assert!($a == $b) }; }

pub mod span {
use vstd::prelude::*;
verus! {
/*@ type src/span.rs Span
derive Clone, Copy, PartialEq, Eq
@*/
} // verus!
}

pub mod error {
use vstd::prelude::*;
use std::borrow::Cow;
use crate::span::Span;
verus! {
pub type CowStr = Cow<'static, str>;
pub type Label = (Span, Option<CowStr>);
/*@ type src/error.rs Severity
derive Debug, Clone, Copy, PartialEq, Eq, Structural
@*/
/*@ type src/error.rs Stage
derive Debug, Clone, Copy, PartialEq, Eq, Structural
@*/
// TRUSTED stand-in for the error source of a diagnostic (`Arc<dyn Error + ..>`): opaque, never inspected here
#[verifier::external_body] pub struct DynSource { _p: () }
/*@ type src/error.rs SourceDiag
derive
rewrite `    source: Option<std::sync::Arc<dyn std::error::Error + Send + Sync + RefUnwindSafe + 'static>>,` => `    pub source: Option<DynSource>,`
@*/
impl SourceDiag {
/*@ fn src/error.rs SourceDiag::is_error
tags C07
ret r
spec:
        ensures r == (self.severity == Severity::Error)
@*/
/*@ fn src/error.rs SourceDiag::is_warning
tags C07
ret r
spec:
        ensures r == (self.severity == Severity::Warning)
@*/
}
/*@ type src/error.rs SourceReport
derive
rewrite `    buf: Vec<SourceDiag>,` => `    pub buf: Vec<SourceDiag>,`
rewrite `    severity: Option<Severity>,` => `    pub severity: Option<Severity>,`
@*/
/// some diagnostic of the sequence is an error
pub open spec fn any_error(s: Seq<SourceDiag>) -> bool { exists|i: int| 0 <= i < s.len() && (#[trigger] s[i]).severity == Severity::Error }
pub open spec fn any_warning(s: Seq<SourceDiag>) -> bool { exists|i: int| 0 <= i < s.len() && (#[trigger] s[i]).severity == Severity::Warning }
impl SourceReport {
    pub open spec fn diags(&self) -> Seq<SourceDiag> { self.buf@ }
    /// representation invariant: a declared severity is the severity of every diagnostic in the report
    pub open spec fn rep_ok(&self) -> bool {
        self.severity.is_some() ==> forall|i: int| 0 <= i < self.buf@.len() ==> (#[trigger] self.buf@[i]).severity == self.severity.unwrap()
    }
/*@ fn src/error.rs SourceReport::empty
tags C07
ret r
spec:
        ensures r.rep_ok(), r.diags().len() == 0, r.severity.is_none()
@*/
/*@ fn src/error.rs SourceReport::push
tags C07 C03
inline is_some_and 0
spec:
        requires old(self).rep_ok(),
            old(self).severity.is_none() || old(self).severity == Some(err.severity),     // [C03] the debug assertion of push
        ensures final(self).rep_ok(), final(self).diags() == old(self).diags().push(err), final(self).severity == old(self).severity
@*/
/*@ fn src/error.rs SourceReport::error
tags C07 C03
spec:
        requires old(self).rep_ok(), w.severity == Severity::Error,     // [C03] debug_assert_eq in `error`
            old(self).severity.is_none() || old(self).severity == Some(Severity::Error),
        ensures final(self).rep_ok(), final(self).diags() == old(self).diags().push(w), final(self).severity == old(self).severity
@*/
/*@ fn src/error.rs SourceReport::warn
tags C07 C03
spec:
        requires old(self).rep_ok(), w.severity == Severity::Warning,     // [C03] debug_assert_eq in `warn`
            old(self).severity.is_none() || old(self).severity == Some(Severity::Warning),
        ensures final(self).rep_ok(), final(self).diags() == old(self).diags().push(w), final(self).severity == old(self).severity
@*/
// ASSUMED: the debug assertion of set_severity (`is_some_and` around `iter().all(..)`) is transcribed as the precondition
/*@ fn src/error.rs SourceReport::set_severity stub
spec:
        requires old(self).rep_ok(),
            severity.is_some() ==> forall|i: int| 0 <= i < old(self).diags().len() ==> (#[trigger] old(self).diags()[i]).severity == severity.unwrap(),   // [C03]
        ensures final(self).rep_ok(), final(self).diags() == old(self).diags(), final(self).severity == severity
@*/
// ASSUMED: the two filtered views (`iter().filter(..)`): only what `next()` of the returned iterator needs
/*@ fn src/error.rs SourceReport::iter stub keepbody
@*/
/*@ fn src/error.rs SourceReport::errors stub keepbody
ret r
spec:
        ensures vstd::std_specs::iter::IteratorSpec::obeys_prophetic_iter_laws(&r),
            (vstd::std_specs::iter::IteratorSpec::remaining(&r).len() > 0) == any_error(self.diags()),
@*/
/*@ fn src/error.rs SourceReport::warnings stub keepbody
ret r
spec:
        ensures vstd::std_specs::iter::IteratorSpec::obeys_prophetic_iter_laws(&r),
            (vstd::std_specs::iter::IteratorSpec::remaining(&r).len() > 0) == any_warning(self.diags()),
@*/
/*@ fn src/error.rs SourceReport::has_errors
tags C07
ret r
spec:
        requires self.rep_ok()
        ensures r == any_error(self.diags())     // [C07]
enter:
        proof { if self.buf@.len() > 0 { assert(self.severity.is_some() ==> self.buf@[0].severity == self.severity.unwrap()); } }
@*/
/*@ fn src/error.rs SourceReport::has_warnings
tags C07
ret r
spec:
        requires self.rep_ok()
        ensures r == any_warning(self.diags())     // [C07]
enter:
        proof { if self.buf@.len() > 0 { assert(self.severity.is_some() ==> self.buf@[0].severity == self.severity.unwrap()); } }
@*/
/*@ fn src/error.rs SourceReport::is_empty
tags C07
ret r
spec:
        ensures r == (self.diags().len() == 0)
@*/
/*@ fn src/error.rs SourceReport::into_vec
tags C07
ret r
spec:
        ensures r@ == self.diags()
@*/
}
/*@ type src/error.rs PassResult
derive
rewrite `    output: Option<T>,` => `    pub output: Option<T>,`
rewrite `    report: SourceReport,` => `    pub report: SourceReport,`
@*/
impl<T> PassResult<T> {
    /// C07: a result is valid exactly when it has output and no error
    pub open spec fn valid(&self) -> bool { self.output.is_some() && !any_error(self.report.diags()) }
/*@ fn src/error.rs PassResult::new
tags C07
ret r
spec:
        ensures r.output == output, r.report == report
@*/
/*@ fn src/error.rs PassResult::has_output
tags C07
ret r
spec:
        ensures r == self.output.is_some()
@*/
/*@ fn src/error.rs PassResult::report
tags C07
ret r
spec:
        ensures *r == self.report
@*/
/*@ fn src/error.rs PassResult::is_valid
tags C07
ret r
spec:
        requires self.report.rep_ok()
        ensures r == self.valid()     // [C07]
@*/
/*@ fn src/error.rs PassResult::output
tags C07
ret r
spec:
        ensures r.is_some() == self.output.is_some(), r.is_some() ==> *r.unwrap() == self.output.unwrap()
@*/
/*@ fn src/error.rs PassResult::valid_output
tags C07
ret r
spec:
        requires self.report.rep_ok()
        ensures r.is_some() == self.valid(), r.is_some() ==> *r.unwrap() == self.output.unwrap()     // [C07]
@*/
/*@ fn src/error.rs PassResult::into_result
tags C07 C03
ret r
desugar_mut_self
spec:
        requires self.report.rep_ok()
        ensures
            // [C07] Ok exactly for a valid result: the output, and a report that holds the same diagnostics, all of them warnings
            self.valid() ==> r is Ok && r->Ok_0.0 == self.output.unwrap() && r->Ok_0.1.diags() == self.report.diags() && !any_error(r->Ok_0.1.diags()),
            !self.valid() ==> r is Err && r->Err_0 == self.report,
@*/
/*@ fn src/error.rs PassResult::into_report
tags C07
ret r
spec:
        ensures r == self.report
@*/
/*@ fn src/error.rs PassResult::into_output
tags C07
ret r
spec:
        ensures r == self.output
@*/
/*@ fn src/error.rs PassResult::unwrap_output
tags C03
ret r
spec:
        requires self.output.is_some()     // documented: panics if the output is None
        ensures r == self.output.unwrap()
@*/
/*@ fn src/error.rs PassResult::into_tuple
tags C07
ret r
spec:
        ensures r.0 == self.output, r.1 == self.report
@*/
}
} // verus!
} // mod error
fn main() {}
