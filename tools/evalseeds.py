#!/usr/bin/env python3
"""Runs the owning check(s) against every seeded change (applied to a scratch copy, never to /repo) and records the outcome
in seeded/<id>/meta.json.  usage: evalseeds.py [id ...]"""
import json, os, re, subprocess, sys, shutil
ROOT = os.path.dirname(os.path.dirname(os.path.abspath(__file__)))
plan = json.load(open(os.path.join(ROOT, "contracts", "plan.json")))
ids = sys.argv[1:] or sorted(os.listdir(os.path.join(ROOT, "seeded")))
confirm = {}
for lg in ("/var/tmp/seedconfirm.log", "/var/tmp/seedconfirm2.log", "/var/tmp/seedconfirm3.log", "/var/tmp/seedconfirm4.log", "/var/tmp/seedconfirm5.log"):
    if os.path.exists(lg):
        for ln in open(lg):
            m = re.match(r"RESULT (C\d\d(?:r[2345])?)_([AB]) (.*)", ln)
            if m: confirm[f"{m.group(1)}-{m.group(2)}"] = m.group(3).strip()
for sid in ids:
    d = os.path.join(ROOT, "seeded", sid)
    prop = sid[:3]
    scratch = f"/var/tmp/seedeval.{os.getpid()}"
    shutil.rmtree(scratch, ignore_errors=True)
    subprocess.run(["rsync", "-a", "--exclude", "target", "--exclude", ".git", "/repo/", scratch + "/"], check=True)
    p = subprocess.run(["patch", "-p1", "-s", "-i", os.path.join(d, "patch.diff")], cwd=scratch, capture_output=True, text=True)
    res = {}
    if p.returncode != 0:
        res[prop] = {"outcome": "patch-does-not-apply", "detail": p.stdout[-300:]}
    else:
        props = [prop] if prop in plan["properties"] else []
        for q in props:
            r = subprocess.run([os.path.join(ROOT, "check"), q, "--repo", scratch, "--no-evidence"], capture_output=True, text=True)
            lines = [l for l in r.stdout.splitlines() if l.startswith(("VIOLATION", "FAILED-OBLIGATION", "UNDECIDED", "KNOWN"))]
            res[q] = {"exit": r.returncode, "outcome": {0: "missed", 1: "caught", 2: "undecided"}.get(r.returncode, "error"), "lines": lines[:6]}
    shutil.rmtree(scratch, ignore_errors=True)
    notes = open(os.path.join(d, "notes.md")).read() if os.path.exists(os.path.join(d, "notes.md")) else ""
    meta_p = os.path.join(d, "meta.json")
    meta = json.load(open(meta_p)) if os.path.exists(meta_p) else {}
    meta.update({"id": sid, "property": prop, "origin": "independent sub-agent given only the property text and a scratch worktree",
                 "confirmed": confirm.get(sid, meta.get("confirmed", "")),
                 "confirm_cmd": "tools/confirm_seed.sh seeded/%s %s  (scratch worktree of /repo HEAD: suite with patch, demo with patch, demo without)" % (sid, sid),
                 "detection": res})
    json.dump(meta, open(meta_p, "w"), indent=1)
    print(sid, {k: v["outcome"] for k, v in res.items()})
