//! vx — source indexer for the contract machinery.
//!
//! `vx index <file.rs>` parses a Rust source file with `syn` and prints a JSON index of
//! every item with the *byte ranges* (into the file as it is on disk) that the splicer
//! needs: whole item, attributes, signature end, return type, body, every loop header,
//! every closure literal.  It never rewrites anything; all text handling is done by the
//! driver on the original bytes.
use proc_macro2::Span;
use serde_json::{json, Value};
use syn::spanned::Spanned;
use syn::visit::Visit;

fn r(s: Span) -> (usize, usize) {
    let b = s.byte_range();
    (b.start, b.end)
}
fn rj(s: Span) -> Value {
    let (a, b) = r(s);
    json!([a, b])
}

struct Body<'s> {
    src: &'s str,
    loops: Vec<Value>,
    closures: Vec<Value>,
    macros: Vec<Value>,
    combinators: Vec<Value>,
    /// every statement of every block of the body: (block ordinal in visit order, index in the block, byte span)
    stmts: Vec<Value>,
    block_no: usize,
    /// every `EXPR as TYPE` cast: span of the whole cast, of the operand, and the target type text
    casts: Vec<Value>,
    /// identifiers bound by patterns (let, for, match arms, closure parameters), in source order
    locals: Vec<Value>,
}

/// does the expression contain `?` or `return` outside nested closures? (then it cannot be inlined)
struct Esc(bool);
impl<'ast> Visit<'ast> for Esc {
    fn visit_expr_try(&mut self, _e: &'ast syn::ExprTry) { self.0 = true; }
    fn visit_expr_return(&mut self, _e: &'ast syn::ExprReturn) { self.0 = true; }
    fn visit_expr_closure(&mut self, _e: &'ast syn::ExprClosure) {}
    fn visit_macro(&mut self, m: &'ast syn::Macro) {
        if let Ok(args) = m.parse_body_with(syn::punctuated::Punctuated::<syn::Expr, syn::Token![,]>::parse_terminated) {
            for a in args.iter() { self.visit_expr(a); }
        }
    }
}
impl<'ast, 's> Visit<'ast> for Body<'s> {
    fn visit_expr_cast(&mut self, e: &'ast syn::ExprCast) {
        let (a, b) = r(e.ty.span());
        self.casts.push(json!({"span": rj(e.span()), "expr": rj(e.expr.span()), "ty": &self.src[a..b]}));
        syn::visit::visit_expr_cast(self, e);
    }
    fn visit_pat_ident(&mut self, p: &'ast syn::PatIdent) {
        self.locals.push(json!(p.ident.to_string()));
        syn::visit::visit_pat_ident(self, p);
    }
    fn visit_block(&mut self, b: &'ast syn::Block) {
        let me = self.block_no;
        self.block_no += 1;
        for (i, st) in b.stmts.iter().enumerate() {
            self.stmts.push(json!({"block": me, "idx": i, "span": rj(st.span())}));
        }
        syn::visit::visit_block(self, b);
    }
    fn visit_expr_for_loop(&mut self, e: &'ast syn::ExprForLoop) {
        self.loops.push(json!({"kind":"for","span":rj(e.span()),"body_start":r(e.body.span()).0,
            "pat":rj(e.pat.span()),"expr":rj(e.expr.span())}));
        syn::visit::visit_expr_for_loop(self, e);
    }
    fn visit_expr_while(&mut self, e: &'ast syn::ExprWhile) {
        self.loops.push(json!({"kind":"while","span":rj(e.span()),"body_start":r(e.body.span()).0,
            "expr":rj(e.cond.span())}));
        syn::visit::visit_expr_while(self, e);
    }
    fn visit_expr_loop(&mut self, e: &'ast syn::ExprLoop) {
        self.loops.push(json!({"kind":"loop","span":rj(e.span()),"body_start":r(e.body.span()).0}));
        syn::visit::visit_expr_loop(self, e);
    }
    fn visit_expr_closure(&mut self, e: &'ast syn::ExprClosure) {
        let inputs: Vec<Value> = e
            .inputs
            .iter()
            .map(|p| json!({"span":rj(p.span()),"typed":matches!(p, syn::Pat::Type(_))}))
            .collect();
        let has_ret = !matches!(e.output, syn::ReturnType::Default);
        let is_block = matches!(&*e.body, syn::Expr::Block(_));
        self.closures.push(json!({"span":rj(e.span()),"or1":rj(e.or1_token.span()),"or2":rj(e.or2_token.span()),
            "inputs":inputs,"has_ret":has_ret,"body":rj(e.body.span()),"body_is_block":is_block,
            "is_move": e.capture.is_some()}));
        syn::visit::visit_expr_closure(self, e);
    }
    fn visit_expr_method_call(&mut self, e: &'ast syn::ExprMethodCall) {
        if e.args.len() == 1 {
            if let Some(syn::Expr::Closure(c)) = e.args.first() {
                let mut esc = Esc(false);
                esc.visit_expr(&c.body);
                let pats: Vec<Value> = c.inputs.iter().map(|p| {
                    let inner = match p { syn::Pat::Type(t) => rj(t.pat.span()), _ => rj(p.span()) };
                    json!({"span": rj(p.span()), "pat": inner})
                }).collect();
                self.combinators.push(json!({"method": e.method.to_string(), "span": rj(e.span()),
                    "recv": rj(e.receiver.span()), "closure": rj(c.span()), "body": rj(c.body.span()),
                    "params": pats, "escapes": esc.0, "paren_end": r(e.paren_token.span.close()).1}));
            }
        }
        if e.args.len() == 1 && !matches!(e.args.first(), Some(syn::Expr::Closure(_))) {
            let m = e.method.to_string();
            if m == "any" || m == "all" || m == "find" || m == "rposition" {
                let a = e.args.first().unwrap();
                let empty: Vec<Value> = vec![];
                self.combinators.push(json!({"method": m, "span": rj(e.span()), "recv": rj(e.receiver.span()),
                    "closure": rj(a.span()), "body": rj(a.span()), "params": empty, "escapes": false,
                    "paren_end": r(e.paren_token.span.close()).1, "not_closure": true}));
            }
        }
        syn::visit::visit_expr_method_call(self, e);
    }
    fn visit_macro(&mut self, m: &'ast syn::Macro) {
        let name = m.path.segments.last().map(|s| s.ident.to_string()).unwrap_or_default();
        self.macros.push(json!({"name":name,"span":rj(m.span())}));
        // try to look inside expression-like macro arguments (assert!, matches!, vec!, ...)
        if let Ok(args) = m.parse_body_with(syn::punctuated::Punctuated::<syn::Expr, syn::Token![,]>::parse_terminated) {
            for a in args.iter() {
                self.visit_expr(a);
            }
        }
        let _ = self.src;
    }
}

struct Ix<'s> {
    src: &'s str,
    modpath: Vec<String>,
    items: Vec<Value>,
}

fn attrs_json(attrs: &[syn::Attribute], src: &str) -> Vec<Value> {
    attrs
        .iter()
        .map(|a| {
            let (s, e) = r(a.span());
            let name = a.path().segments.iter().map(|s| s.ident.to_string()).collect::<Vec<_>>().join("::");
            json!({"span":[s,e],"name":name,"text":&src[s..e]})
        })
        .collect()
}

fn type_name(t: &syn::Type) -> String {
    match t {
        syn::Type::Path(p) => p.path.segments.last().map(|s| s.ident.to_string()).unwrap_or_default(),
        syn::Type::Reference(r) => type_name(&r.elem),
        _ => "?".into(),
    }
}

impl<'s> Ix<'s> {
    fn pfx(&self, name: &str) -> String {
        let mut p = self.modpath.clone();
        p.push(name.to_string());
        p.join("::")
    }
    fn push_fn(&mut self, path: String, whole: Span, attrs: &[syn::Attribute], vis: Option<&syn::Visibility>, sig: &syn::Signature, block: &syn::Block) {
        let mut b = Body { src: self.src, loops: vec![], closures: vec![], macros: vec![], combinators: vec![], stmts: vec![], block_no: 0, casts: vec![], locals: vec![] };
        b.visit_block(block);
        let (ws, we) = r(whole);
        let after_attrs = match vis {
            Some(v) if !matches!(v, syn::Visibility::Inherited) => r(v.span()).0,
            _ => r(sig.span()).0,
        };
        let ret = match &sig.output {
            syn::ReturnType::Default => Value::Null,
            syn::ReturnType::Type(_, t) => rj(t.span()),
        };
        let (bs, be) = r(block.span());
        assert!(self.src.as_bytes()[bs] == b'{' && self.src.as_bytes()[be - 1] == b'}', "body range of {path} is not a block");
        let inputs: Vec<Value> = sig.inputs.iter().map(|a| rj(a.span())).collect();
        self.items.push(json!({"kind":"fn","path":path,"span":[ws,we],"attrs":attrs_json(attrs,self.src),
            "after_attrs":after_attrs,"sig":rj(sig.span()),"ret":ret,"body":[bs,be],"inputs":inputs,
            "name": sig.ident.to_string(),
            "loops":b.loops,"closures":b.closures,"macros":b.macros,"combinators":b.combinators,"stmts":b.stmts,"casts":b.casts,"locals":b.locals}));
    }
    fn push_simple(&mut self, kind: &str, name: String, whole: Span, attrs: &[syn::Attribute], after_attrs: usize, extra: Value) {
        let path = self.pfx(&name);
        self.items.push(json!({"kind":kind,"path":path,"span":rj(whole),"attrs":attrs_json(attrs,self.src),
            "after_attrs":after_attrs,"extra":extra}));
    }
}

fn vis_start(v: &syn::Visibility, fallback: Span) -> usize {
    if matches!(v, syn::Visibility::Inherited) { r(fallback).0 } else { r(v.span()).0 }
}

impl<'ast, 's> Visit<'ast> for Ix<'s> {
    fn visit_item_mod(&mut self, m: &'ast syn::ItemMod) {
        self.modpath.push(m.ident.to_string());
        syn::visit::visit_item_mod(self, m);
        self.modpath.pop();
    }
    fn visit_item_fn(&mut self, f: &'ast syn::ItemFn) {
        let p = self.pfx(&f.sig.ident.to_string());
        self.push_fn(p, f.span(), &f.attrs, Some(&f.vis), &f.sig, &f.block);
    }
    fn visit_item_impl(&mut self, i: &'ast syn::ItemImpl) {
        let ty = type_name(&i.self_ty);
        let owner = match &i.trait_ {
            Some((_, path, _)) => {
                let t = path.segments.last().map(|s| s.ident.to_string()).unwrap_or_default();
                format!("<{} for {}>", t, ty)
            }
            None => ty,
        };
        let (s, e) = r(i.span());
        let hdr_end = r(i.brace_token.span.open()).0;
        let after_attrs = i.attrs.last().map(|a| r(a.span()).1).unwrap_or(s);
        self.items.push(json!({"kind":"impl","path":self.pfx(&owner),"span":[s,e],"attrs":attrs_json(&i.attrs,self.src),
            "after_attrs":after_attrs,"header_end":hdr_end}));
        for it in &i.items {
            if let syn::ImplItem::Fn(f) = it {
                let p = self.pfx(&format!("{}::{}", owner, f.sig.ident));
                self.push_fn(p, f.span(), &f.attrs, Some(&f.vis), &f.sig, &f.block);
            }
        }
    }
    fn visit_item_struct(&mut self, i: &'ast syn::ItemStruct) {
        self.push_simple("struct", i.ident.to_string(), i.span(), &i.attrs, vis_start(&i.vis, i.struct_token.span()), Value::Null);
    }
    fn visit_item_enum(&mut self, i: &'ast syn::ItemEnum) {
        let fieldless = i.variants.iter().all(|v| matches!(v.fields, syn::Fields::Unit));
        let variants: Vec<Value> = i.variants.iter().map(|v| json!({"name":v.ident.to_string(),"span":rj(v.span()),"attrs":attrs_json(&v.attrs,self.src)})).collect();
        self.push_simple("enum", i.ident.to_string(), i.span(), &i.attrs, vis_start(&i.vis, i.enum_token.span()), json!({"fieldless":fieldless,"variants":variants}));
    }
    fn visit_item_const(&mut self, i: &'ast syn::ItemConst) {
        self.push_simple("const", i.ident.to_string(), i.span(), &i.attrs, vis_start(&i.vis, i.const_token.span()), Value::Null);
    }
    fn visit_item_static(&mut self, i: &'ast syn::ItemStatic) {
        self.push_simple("static", i.ident.to_string(), i.span(), &i.attrs, vis_start(&i.vis, i.static_token.span()), Value::Null);
    }
    fn visit_item_type(&mut self, i: &'ast syn::ItemType) {
        self.push_simple("type", i.ident.to_string(), i.span(), &i.attrs, vis_start(&i.vis, i.type_token.span()), Value::Null);
    }
    fn visit_item_trait(&mut self, i: &'ast syn::ItemTrait) {
        self.push_simple("trait", i.ident.to_string(), i.span(), &i.attrs, vis_start(&i.vis, i.trait_token.span()), Value::Null);
    }
    fn visit_item_macro(&mut self, i: &'ast syn::ItemMacro) {
        if let Some(id) = &i.ident {
            let s = i.attrs.last().map(|a| r(a.span()).1).unwrap_or(r(i.span()).0);
            self.push_simple("macro", id.to_string(), i.span(), &i.attrs, s, Value::Null);
        }
    }
}

fn main() {
    let a: Vec<String> = std::env::args().collect();
    if a.len() != 3 || a[1] != "index" {
        eprintln!("usage: vx index <file.rs>");
        std::process::exit(2);
    }
    let src = match std::fs::read_to_string(&a[2]) {
        Ok(s) => s,
        Err(e) => {
            eprintln!("vx: cannot read {}: {e}", a[2]);
            std::process::exit(2);
        }
    };
    let file = match syn::parse_file(&src) {
        Ok(f) => f,
        Err(e) => {
            eprintln!("vx: cannot parse {}: {e}", a[2]);
            std::process::exit(2);
        }
    };
    let mut ix = Ix { src: &src, modpath: vec![], items: vec![] };
    ix.visit_file(&file);
    println!("{}", serde_json::to_string(&json!({"file":a[2],"len":src.len(),"items":ix.items})).unwrap());
}
