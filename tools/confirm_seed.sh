#!/bin/sh
# confirm_seed.sh <dir with patch.diff demo.rs> <name>  — confirms a seeded fault in a scratch worktree of /repo (HEAD):
# suite passes with the patch, demo fails with it, demo passes without it. Prints one RESULT line.
d=$1; name=$2
wt=/var/tmp/seedconfirm/wt_$name
export CARGO_TARGET_DIR=/var/tmp/seedconfirm/target
mkdir -p /var/tmp/seedconfirm
git -C /repo worktree remove --force $wt 2>/dev/null
git -C /repo worktree add -q --detach $wt HEAD || exit 3
cd $wt
if ! git apply --check $d/patch.diff 2>/dev/null; then echo "RESULT $name patch-does-not-apply"; git -C /repo worktree remove --force $wt; exit 0; fi
git apply $d/patch.diff
suite=$(cargo test --workspace --offline 2>&1 | grep -E "^test result" | grep -vc " 0 failed")
suite_ok=$([ "$suite" = "0" ] && echo pass || echo FAIL)
cp $d/demo.rs tests/verif_seed_demo.rs
with=$(cargo test --offline -p cooklang --test verif_seed_demo 2>&1 | grep -E "^test result" | head -1)
git checkout -q -- . 
without=$(cargo test --offline -p cooklang --test verif_seed_demo 2>&1 | grep -E "^test result" | head -1)
echo "RESULT $name suite_with_patch=$suite_ok | demo_with_patch: $with | demo_without: $without"
cd /; git -C /repo worktree remove --force $wt
