#!/usr/bin/env python3
"""vgen — template expander of the contract machinery (DESIGN.md §2.1).

A template (contracts/verus/*.rs) is a Verus source file whose executable functions are
NOT written down: they are pulled, byte for byte, out of /repo's working tree on every
run by directives of the form

    /*@ fn src/span.rs Span::new
    ret r
    spec:
        requires start <= end,
        ensures r.s() == start, r.e() == end,
    @*/

The expander only ever *inserts* text into the extracted item (contracts after the
signature, invariants before a loop body, proof hints before/after an anchored
statement, a ghost iterator name into a `for` header, types/contracts into a closure
literal) or applies one of the listed, logged rewrites (DESIGN X1..X5b).  Every edit is
logged; `verify_fidelity` undoes the log and compares with the repository bytes.
"""
import hashlib
import json
import os
import re
import subprocess
import sys

HERE = os.path.dirname(os.path.abspath(__file__))
VX = os.path.join(HERE, "vx", "target", "release", "vx")

DEFAULT_DROP_ATTRS = {"inline", "must_use", "tracing::instrument", "instrument", "allow", "deprecated"}
DERIVE_KEEP = {"Debug", "Clone", "Copy", "PartialEq", "Eq", "Default"}


class GenError(Exception):
    """Template cannot be applied to the current tree (lost anchor etc.) -> exit 2."""


_index_cache = {}


def index(repo, rel):
    key = (repo, rel)
    if key not in _index_cache:
        path = os.path.join(repo, rel)
        if not os.path.exists(path):
            raise GenError(f"source file {rel} does not exist in the tree")
        p = subprocess.run([VX, "index", path], capture_output=True, text=True)
        if p.returncode != 0:
            raise GenError(f"vx index {rel}: {p.stderr.strip()}")
        d = json.loads(p.stdout)
        d["bytes"] = open(path, "rb").read()
        _index_cache[key] = d
    return _index_cache[key]


def find_item(ix, kind, path, rel):
    kinds = {"fn": ("fn",), "type": ("struct", "enum", "type"), "const": ("const", "static"),
             "macro": ("macro",), "trait": ("trait",), "impl": ("impl",)}[kind]
    hits = [it for it in ix["items"] if it["kind"] in kinds and it["path"] == path]
    if len(hits) != 1:
        raise GenError(f"{rel}: item {kind} {path} found {len(hits)} times")
    return hits[0]


class Edit:
    __slots__ = ("pos", "end", "text", "rule", "tline", "sec", "optional")

    def __init__(self, pos, end, text, rule, tline):
        self.pos, self.end, self.text, self.rule, self.tline = pos, end, text, rule, tline
        self.sec, self.optional = -1, False


def line_of(data, off):
    return data.count(b"\n", 0, off) + 1


def parse_directive(text, tline):
    """text = content between '/*@' and '@*/'."""
    lines = text.split("\n")
    head = lines[0].split()
    d = {"kind": head[0], "file": head[1] if len(head) > 1 else None,
         "path": head[2].replace("~", " ") if len(head) > 2 else None, "flags": head[3:], "sections": [], "tline": tline}
    cur = None
    for k, ln in enumerate(lines[1:], start=1):
        if ln.strip() == "":
            if cur is not None:
                cur["text"].append(ln)
            continue
        if ln[0] in " \t":
            if cur is None:
                raise GenError(f"template line {tline + k}: text outside a section")
            cur["text"].append(ln)
        else:
            cur = {"head": ln.rstrip(), "text": [], "tline": tline + k}
            d["sections"].append(cur)
    return d


import threading
_tls = threading.local()   # per thread (./check expands several units concurrently):
#   .anchor_map      {fn: {section head: [block ordinal, statement index]}} recorded on the pristine tree
#   .fallback_notes  sections of the current function that were placed by statement position
_record_anchors = None    # set to a dict by `vgen.py --record-anchors` (single-threaded)


LOSABLE = ("desugar_mut_self", "wrapcast", "loop", "loopbody", "beforeloop", "afterloop", "before", "after", "closure", "inline", "desugar_for", "hoist", "rewrite")


ANCH = re.compile(r"`((?:[^`])*)`(?:#(\d+))?")


def find_anchor(item_bytes, anchor, nth, what):
    a = anchor.encode()
    hits = []
    i = item_bytes.find(a)
    while i >= 0:
        hits.append(i)
        i = item_bytes.find(a, i + 1)
    if nth is None:
        if len(hits) != 1:
            raise GenError(f"{what}: anchor `{anchor}` matches {len(hits)} times (need exactly 1)")
        return hits[0]
    if nth >= len(hits):
        raise GenError(f"{what}: anchor `{anchor}`#{nth} not found ({len(hits)} matches)")
    return hits[nth]


def ghost_only(text):
    """lint: text spliced into a body (before/after/enter/loopbody) must consist of ghost code only:
    `proof { .. }` blocks, `let ghost ..;`, `broadcast use ..;`, `hide(..);`, `reveal(..);`, `assert ..;`, comments, a bare `;`"""
    t = re.sub(r"//[^\n]*", "", text)
    i, n = 0, len(t)
    while i < n:
        if t[i].isspace() or t[i] == ";":
            i += 1
            continue
        m = re.match(r"proof\s*\{", t[i:])
        if m:
            depth, j = 0, i + m.end() - 1
            while j < n:
                if t[j] == "{": depth += 1
                elif t[j] == "}":
                    depth -= 1
                    if depth == 0: break
                j += 1
            if j >= n: return False
            i = j + 1
            continue
        m = re.match(r"(let ghost\b|broadcast use\b|hide\(|reveal\(|assert\b)", t[i:])
        if m:
            # up to the terminating `;` at brace depth 0
            depth, j = 0, i
            while j < n:
                if t[j] in "{([": depth += 1
                elif t[j] in "})]": depth -= 1
                elif t[j] == ";" and depth == 0: break
                j += 1
            if j >= n: return False
            i = j + 1
            continue
        return False
    return True


def _apply_section(sec, head, it, data, s0, e0, what, edits, drop, tags_box, ret_box):
    body = "\n".join(sec["text"])
    for old_, new_ in (getattr(_tls, "renames", None) or {}).items():
        # a local variable of the function was renamed in the repository: the ghost text follows it
        body = re.sub(r"(?<![\w.])" + re.escape(old_) + r"\b", new_, body)
    tl = sec["tline"]
    w = head.split()
    kw = w[0].rstrip(":")
    if kw == "tags":
        tags_box[0] = [x.rstrip(":") for x in w[1:]]
    elif kw == "ret":
        ret_name = (getattr(_tls, "renames", None) or {}).get(w[1], w[1])     # the binder follows a renamed local of the same name
        ret_box[0] = ret_name
        if it["ret"] is None:
            raise GenError(f"{what}: 'ret' given but the function has no return type")
        a, b = it["ret"]
        edits.append(Edit(a, a, f"({ret_name}: ", "ins:ret", tl))
        edits.append(Edit(b, b, ")", "ins:ret", tl))
    elif kw == "attr":
        # verifier-only attributes (e.g. spinoff_prover: a fresh solver instance for this function); they do not change the code
        at = head.split(None, 1)[1].strip()
        if not re.fullmatch(r"#\[verifier::[a-z_]+(\([^\]]*\))?\]", at):
            raise GenError(f"template line {tl}: only #[verifier::..] attributes may be added to a function")
        edits.append(Edit(it["after_attrs"], it["after_attrs"], at + " ", "ins:attr", tl))
    elif kw == "spec":
        edits.append(Edit(it["body"][0], it["body"][0], "\n" + body + "\n", "ins:spec", tl))
    elif kw == "enter":
        if not ghost_only(body):
            raise GenError(f"template line {tl}: spliced text is not ghost-only")
        edits.append(Edit(it["body"][0] + 1, it["body"][0] + 1, "\n" + body + "\n", "ins:enter", tl))
    elif kw == "loop":
        k = int(w[1].rstrip(":"))
        if k >= len(it["loops"]):
            raise GenError(f"{what}: loop {k} not found (function has {len(it['loops'])} loops)")
        lp = it["loops"][k]
        if len(w) >= 4 and w[2] == "it":
            if lp["kind"] != "for":
                raise GenError(f"{what}: loop {k} is not a for loop")
            edits.append(Edit(lp["expr"][0], lp["expr"][0], w[3].rstrip(":") + ": ", "ins:ghost-iter", tl))
        if body.strip():
            edits.append(Edit(lp["body_start"], lp["body_start"], "\n" + body + "\n", "ins:loop", tl))
    elif kw == "desugar_for":
        # X9: `for PAT in EXPR BODY` written as the `while let` loop the language defines it to be (this Verus cannot prove
        # its built-in for-loop invariant for iterators without a dedicated vstd model)
        k = int(w[1].rstrip(":"))
        if k >= len(it["loops"]) or it["loops"][k]["kind"] != "for":
            raise GenError(f"{what}: desugar_for {k}: no such for loop")
        lp = it["loops"][k]
        pat = data[lp["pat"][0]:lp["pat"][1]].decode()
        ex = data[lp["expr"][0]:lp["expr"][1]].decode()
        m_ = re.match(r"^(.*?)\s*\.\s*by_ref\(\)$", ex, re.S)
        if m_:
            # `for x in it.by_ref()` is `while let Some(x) = it.next()` (std: `impl Iterator for &mut I` forwards next)
            hdr = f"while let Some({pat}) = {m_.group(1)}.next() "
            edits.append(Edit(lp["span"][0], lp["body_start"], hdr, "X9:desugar-for-by_ref", tl))
        else:
            hdr = f"{{ let mut __it{k} = core::iter::IntoIterator::into_iter({ex}); while let Some({pat}) = __it{k}.next() "
            edits.append(Edit(lp["span"][0], lp["body_start"], hdr, "X9:desugar-for", tl))
            edits.append(Edit(lp["span"][1], lp["span"][1], " }", "X9:desugar-for", tl))
    elif kw == "loopbody":
        k = int(w[1].rstrip(":"))
        if k >= len(it["loops"]):
            raise GenError(f"{what}: loop {k} not found (function has {len(it['loops'])} loops)")
        lp = it["loops"][k]
        if not ghost_only(body):
            raise GenError(f"template line {tl}: spliced text is not ghost-only")
        edits.append(Edit(lp["body_start"] + 1, lp["body_start"] + 1, "\n" + body + "\n", "ins:loopbody", tl))
    elif kw == "desugar_mut_self":
        # X10: `fn f(mut self ..) BODY` is `fn f(self ..) { let mut this = self; BODY[this/self] }` (the binding mode of a
        # by-value parameter is not part of the signature); this Verus does not accept `mut self`
        sig = data[it["sig"][0]:it["body"][0]]
        m_ = re.search(rb"\bmut\s+self\b", sig)
        if not m_:
            raise GenError(f"{what}: desugar_mut_self: no `mut self` parameter")
        a = it["sig"][0] + m_.start()
        edits.append(Edit(a, a + (m_.end() - m_.start()), "self", "X10:mut-self", tl))
        b0, b1 = it["body"]
        edits.append(Edit(b0 + 1, b0 + 1, " let mut __self = self; ", "X10:mut-self", tl))
        for mm in re.finditer(rb"\bself\b", data[b0:b1]):
            edits.append(Edit(b0 + mm.start(), b0 + mm.end(), "__self", "X10:mut-self", tl))
    elif kw == "wrapcast":
        # X4 (structural): every `EXPR as TYPE` cast of the function is routed through a trusted wrapper function
        # (Verus gives integer-to-float casts no meaning); written `wrapcast f64 crate::u32_as_f64`
        ty, fn_ = w[1], w[2].rstrip(":")
        for c in it.get("casts", []):
            if c["ty"].strip() == ty:
                (a, b), (ea, eb) = c["span"], c["expr"]
                edits.append(Edit(a, ea, fn_ + "(", "X4:wrapcast", tl))
                edits.append(Edit(eb, b, ")", "X4:wrapcast", tl))
    elif kw in ("beforeloop", "afterloop"):
        # structural anchors: ghost text right before / right after loop K (when the loop is a statement)
        k = int(w[1].rstrip(":"))
        if k >= len(it["loops"]):
            raise GenError(f"{what}: loop {k} not found (function has {len(it['loops'])} loops)")
        lp = it["loops"][k]
        if not ghost_only(body):
            raise GenError(f"template line {tl}: spliced text is not ghost-only")
        at = lp["span"][0] if kw == "beforeloop" else lp["span"][1]
        edits.append(Edit(at, at, "\n" + body + "\n", "ins:" + kw, tl))
    elif kw in ("before", "after"):
        # alternatives: "after `A` or before `B`:" — the first anchor that is found wins (a change that deletes the statement
        # one anchor names usually leaves its neighbour in place)
        alts = re.split(r"\s+or\s+(?=(?:before|after)\s+`)", head)
        head0 = head
        last_err = None
        for alt_i, alt in enumerate(alts):
            kw = alt.split()[0]
            m = ANCH.search(alt)
            if not m:
                raise GenError(f"template line {tl}: bad anchor syntax")
            nth = int(m.group(2)) if m.group(2) else None
            anchor = m.group(1).replace("<NL>", "\n")
            try:
                find_anchor(data[s0:e0], anchor, nth, what)
                break
            except GenError as ex_:
                last_err = ex_
        else:
            # none found: fall back on the first alternative (its statement position is what the anchor file records)
            kw = alts[0].split()[0]
            m = ANCH.search(alts[0])
            nth = int(m.group(2)) if m.group(2) else None
            anchor = m.group(1).replace("<NL>", "\n")
        head = head0
        try:
            off = s0 + find_anchor(data[s0:e0], anchor, nth, what)
            if kw == "after":
                off += len(anchor.encode())
            if _record_anchors is not None:
                # remember which statement (block ordinal, index) the anchor sits in: the structural fallback used when a
                # later refactoring changes the anchor text but keeps the statement structure
                probe = off if kw == "before" else off - 1
                inner = None
                for st in it.get("stmts", []):
                    a_, b_ = st["span"]
                    if a_ <= probe < b_ and (inner is None or (b_ - a_) < (inner["span"][1] - inner["span"][0])):
                        inner = st
                if inner is not None:
                    _record_anchors.setdefault(what, {})[head] = [inner["block"], inner["idx"]]
        except GenError:
            ent = None if getattr(_tls, "cur_optional", False) else getattr(_tls, "anchor_map", {}).get(what, {}).get(head)
            st = None
            if ent is not None:
                st = next((x for x in it.get("stmts", []) if x["block"] == ent[0] and x["idx"] == ent[1]), None)
            if st is None:
                raise
            off = st["span"][0] if kw == "before" else st["span"][1]
            _tls.fallback_notes.append(f"section '{head}' placed by statement position (block {ent[0]}, statement {ent[1]}): its text anchor is gone")
        if not ghost_only(body):
            raise GenError(f"template line {tl}: spliced text is not ghost-only: {body.strip()[:80]}")
        edits.append(Edit(off, off, ("\n" if kw == "before" else " ") + body + "\n", "ins:" + kw, tl))
    elif kw == "closure":
        ms = ANCH.findall(head)
        types = [x[0] for x in ms]
        if w[1].startswith("@"):
            # closure identified by the beginning of its source text (robust against reordering)
            want = types[0].replace("<NL>", "\n").encode()
            types = types[1:]
            hits = [c_ for c_ in it["closures"] if data[c_["span"][0]:c_["span"][1]].startswith(want)]
            if len(hits) == 1:
                c = hits[0]
                k = it["closures"].index(c)
                if _record_anchors is not None:
                    _record_anchors.setdefault(what, {})[head] = ["closure", k, len(it["closures"])]
            else:
                # the closure text changed.  If the function still has as many closures as on the pristine tree, the closure at the
                # recorded ordinal is "the same closure, edited"; when it is a one-expression predicate and the template contract
                # is a pure characterisation (`ensures b == (..)`), the contract is DERIVED from the new body (`b == (BODY)`),
                # so that the enclosing function is judged against what the closure now computes, not against what it used to.
                ent = getattr(_tls, "anchor_map", {}).get(what, {}).get(head)
                ok = ent is not None and ent[0] == "closure" and ent[2] == len(it["closures"]) and ent[1] < len(it["closures"])
                c = it["closures"][ent[1]] if ok else None
                simple = ok and not c["body_is_block"] and len(c["inputs"]) == 1 and " ret " in head \
                    and re.fullmatch(r"\s*ensures\s+(\w+)\s*==\s*\(.*\),?\s*", body, re.S) is not None
                if not ok or getattr(_tls, "cur_optional", False):
                    raise GenError(f"{what}: closure starting with `{want.decode()}` found {len(hits)} times")
                k = ent[1]
                if simple:
                    bvar = re.match(r"\s*ensures\s+(\w+)", body).group(1)
                    body = f"        ensures {bvar} == ({data[c['body'][0]:c['body'][1]].decode()})"
                else:
                    # any other closure: the template contract is attached to the closure at the recorded position and the function
                    # counts as degraded (it is judged only if it still verifies)
                    _tls.fallback_notes.append(f"closure section '{head}' attached by position ({k} of {ent[2]}): its text changed")
        else:
            k = int(w[1].rstrip(":"))
            if k >= len(it["closures"]):
                raise GenError(f"{what}: closure {k} not found (function has {len(it['closures'])})")
            c = it["closures"][k]
        rest = head
        retn = None
        if " ret " in head:
            # last backtick group is the return binder
            retn = types[-1]
            types = types[:-1]
        untyped = [p for p in c["inputs"] if not p["typed"]]
        if types and len(types) != len(untyped):
            raise GenError(f"{what}: closure {k} has {len(untyped)} untyped params, template gives {len(types)} types")
        for p, t in zip(untyped, types):
            edits.append(Edit(p["span"][1], p["span"][1], ": " + t, "ins:closure-type", tl))
        pre = ""
        if retn:
            if c["has_ret"]:
                raise GenError(f"{what}: closure {k} already has a return type")
            pre = f" -> ({retn})"
        edits.append(Edit(c["or2"][1], c["or2"][1], pre + "\n" + body + "\n{", "ins:closure-spec", tl))
        edits.append(Edit(c["body"][1], c["body"][1], " }", "ins:closure-spec", tl))
    elif kw == "rewrite":
        ms = ANCH.findall(head)
        if len(ms) != 2:
            raise GenError(f"template line {tl}: rewrite needs `from` => `to`")
        (frm, n1), (to, _) = ms
        frm = frm.replace("<NL>", "\n")
        nth = int(n1) if n1 else None
        off = s0 + find_anchor(data[s0:e0], frm, nth, what)
        edits.append(Edit(off, off + len(frm.encode()), to, "X4:rewrite", tl))
    elif kw == "hoist":
        k = int(w[1].rstrip(":"))
        ms = [m_ for m_ in it["macros"] if m_["name"] in ("assert", "debug_assert")]
        if k >= len(ms):
            raise GenError(f"{what}: hoist {k}: only {len(ms)} assert!/debug_assert! in the function")
        a, b = ms[k]["span"]
        txt = data[a:b].decode()
        name = ms[k]["name"]
        op = txt.index("(")
        if not txt.endswith(")"):
            raise GenError(f"{what}: hoist {k}: unexpected macro shape")
        edits.append(Edit(a, a + op + 1, f"let __h{k} = (", "X5b:hoist", tl))
        # after the `;` that follows the macro call
        j = b
        while data[j:j + 1] in (b" ", b"\n", b"\t"):
            j += 1
        if data[j:j + 1] != b";":
            raise GenError(f"{what}: hoist {k}: macro call is not a statement")
        edits.append(Edit(j + 1, j + 1, f" {name}!(__h{k});", "X5b:hoist", tl))
    elif kw == "inline":
        # X7: `recv.<method>(|p| body)` on an Option/bool rewritten as the match/if std defines it to be
        meth = w[1]
        k = int(w[2].rstrip(":")) if len(w) > 2 else 0
        cands = [c for c in it.get("combinators", []) if c["method"] == meth]
        if k >= len(cands):
            raise GenError(f"{what}: inline {meth} {k}: only {len(cands)} such calls with a closure argument")
        c = cands[k]
        if c["escapes"]:
            raise GenError(f"{what}: inline {meth} {k}: closure body contains `?`/`return`, cannot be inlined")
        pats = [data[p_["pat"][0]:p_["pat"][1]].decode() for p_ in c["params"]]
        r0, r1 = c["recv"]
        b0, b1 = c["body"]
        pe = c["paren_end"]
        x = f"__x{k}"
        if meth == "map" and len(pats) == 1:
            mid, tail = f" {{ Some({pats[0]}) => Some(", "), None => None }"
        elif meth == "and_then" and len(pats) == 1:
            mid, tail = f" {{ Some({pats[0]}) => (", "), None => None }"
        elif meth == "or_else" and len(pats) == 0:
            mid, tail = f" {{ Some({x}) => Some({x}), None => (", ") }"
        elif meth == "unwrap_or_else" and len(pats) == 0:
            mid, tail = f" {{ Some({x}) => {x}, None => (", ") }"
        elif meth == "map_err" and len(pats) == 1:
            mid, tail = f" {{ Ok({x}) => Ok({x}), Err({pats[0]}) => Err(", ") }"
        elif meth == "filter" and len(pats) == 1:
            mid, tail = f" {{ Some({x}) => if {{ let {pats[0]} = &{x}; ", f" }} {{ Some({x}) }} else {{ None }}, None => None }}"
        elif meth == "is_some_and" and len(pats) == 1:
            mid, tail = f" {{ Some({pats[0]}) => (", "), None => false }"
        elif meth == "then" and len(pats) == 0:
            mid, tail = None, None
        else:
            raise GenError(f"{what}: inline {meth}: unsupported combinator shape")
        if meth == "then":
            edits.append(Edit(r0, r0, "if ", "X7:inline", tl))
            edits.append(Edit(r1, b0, " { Some(", "X7:inline", tl))
            edits.append(Edit(b1, pe, ") } else { None }", "X7:inline", tl))
        else:
            edits.append(Edit(r0, r0, "(match ", "X7:inline", tl))
            edits.append(Edit(r1, b0, mid, "X7:inline", tl))
            edits.append(Edit(b1, pe, tail + ")", "X7:inline", tl))
    elif kw == "dropattr":
        drop.update(w[1:])
    elif kw == "keepattr":
        drop.difference_update(w[1:])
    else:
        raise GenError(f"template line {tl}: unknown section '{head}'")


def expand_fn(repo, d, log, force_stub=()):
    rel, path = d["file"], d["path"]
    ix = index(repo, rel)
    it = find_item(ix, "fn", path, rel)
    data = ix["bytes"]
    s0, e0 = it["span"]
    what = f"{rel}::{path}"
    edits = []
    tags = []
    stub = "stub" in d["flags"]
    degraded = []     # reasons why this function cannot be judged (hints lost / forced to a stub); its failures are never alarms
    if f"{rel}::{path}" in force_stub and not stub:
        stub = True
        degraded.append("replaced by an assumed stub: the text spliced into its body no longer compiles against the changed code")
    drop = set(DEFAULT_DROP_ATTRS)
    ret_name = None
    skipped = []
    tags_box, ret_box = [[]], [None]
    _tls.fallback_notes = []
    _tls.renames = (getattr(_tls, "all_renames", None) or {}).get(f"{rel}::{path}")
    if _tls.renames:
        degraded.append("ghost text adapted to renamed locals: " + ", ".join(f"{a}->{b}" for a, b in _tls.renames.items()))
    if _record_anchors is not None:
        _record_anchors.setdefault(what, {})["__locals__"] = it.get("locals", [])
        _record_anchors.setdefault(what, {})["__loops__"] = [lp["kind"] for lp in it.get("loops", [])]
    rec_loops = getattr(_tls, "anchor_map", {}).get(what, {}).get("__loops__")
    if rec_loops is not None and rec_loops != [lp["kind"] for lp in it.get("loops", [])] and not stub \
            and any(sec_["head"].lstrip("?").split()[0].rstrip(":") in ("loop", "loopbody", "beforeloop", "afterloop", "desugar_for") for sec_ in d["sections"]):
        # invariants are attached to loops by ordinal: when the loops of the function are not the ones recorded on the pristine tree
        # (a `while` rewritten as `loop`, a loop added or removed) a failing invariant says nothing about the property
        degraded.append(f"loop structure changed: recorded {rec_loops}, now {[lp['kind'] for lp in it.get('loops', [])]}")
    for sec_no, sec in enumerate(d["sections"]):
        head = sec["head"]
        optional = head.startswith("?")
        if optional:
            head = head[1:]
        n_before = len(edits)
        _tls.cur_optional = optional      # an optional (`?`) section that is lost is simply skipped: no structural fallback
        try:
            _apply_section(sec, head, it, data, s0, e0, what, edits, drop, tags_box, ret_box)
        except GenError as ex:
            del edits[n_before:]
            if optional:
                skipped.append({"section": head, "reason": str(ex)})
            elif head.split()[0].rstrip(":") in LOSABLE and not stub:
                # a mandatory proof hint / rewrite whose anchor vanished (the code was refactored): the function is still
                # extracted and verified, but whatever fails in it is reported as undecided, never as a violation
                degraded.append(f"section '{head}' could not be placed: {ex}")
            elif stub and head.split()[0].rstrip(":") in LOSABLE:
                pass
            else:
                raise
        for e_ in edits[n_before:]:
            e_.sec = sec_no
            e_.optional = optional
    tags = tags_box[0]
    ret_name = ret_box[0]
    if not stub:
        degraded += list(_tls.fallback_notes)
    # X4 (automatic): `<slice>.iter().any|all|find|rposition(closure)` is routed through the trusted wrappers
    # crate::slice_any / slice_all / slice_find / slice_rposition (vstd cannot give these overridden methods a specification)
    if "nowrap" not in d["flags"] and not stub:
        for c in it.get("combinators", []):
            if c["method"] in ("any", "all", "find", "rposition"):
                r0, r1 = c["recv"]
                recv = data[r0:r1].decode()
                m_ = re.match(r"^(.*?)\s*\.\s*iter\(\)$", recv, re.S)
                if not m_:
                    continue
                base = m_.group(1)
                cl0 = c["closure"][0]
                edits.append(Edit(r0, cl0, f"crate::slice_{c['method']}({base}, ", "X4:auto-wrapper", d["tline"]))
    # attributes (X1)
    for a in it["attrs"]:
        if a["name"] in drop:
            edits.append(Edit(a["span"][0], a["span"][1], "", "X1:dropattr", d["tline"]))
    if stub:
        # X6: signature only, body replaced by an unimplemented external_body stub
        edits.append(Edit(it["after_attrs"], it["after_attrs"], "#[verifier::external_body] ", "X6:stub", d["tline"]))
        if "keepbody" not in d["flags"]:
            edits.append(Edit(it["body"][0], it["body"][1], "{ unimplemented!() }", "X6:stub", d["tline"]))
        # `stub keepbody`: the real body stays (needed when the return type is `impl Trait`); external_body hides it from the verifier
    edits.sort(key=lambda e: (e.pos, e.end))
    # overlapping check; an optional section that collides with another edit is dropped as a whole
    while True:
        clash = None
        for a, b in zip(edits, edits[1:]):
            if b.pos < a.end:
                clash = (a, b)
                break
        if clash is None:
            break
        a, b = clash
        victim = a if a.optional else (b if b.optional else None)
        if victim is None:
            victim = b if b.sec >= 0 else a
            if victim.sec < 0:
                raise GenError(f"{what}: overlapping edits at byte {b.pos}")
            degraded.append(f"section '{d['sections'][victim.sec]['head']}' overlaps another edit")
        else:
            skipped.append({"section": d["sections"][victim.sec]["head"], "reason": "overlaps another edit"})
        edits = [e for e in edits if e.sec != victim.sec]
    # a stub drops edits inside the body
    if stub:
        bs, be = it["body"]
        edits = [e for e in edits if not (bs < e.pos < be) or e.rule == "X6:stub"]
        edits = [e for e in edits if not (e.rule != "X6:stub" and e.pos == bs and e.end == bs and e.rule != "ins:spec")]
    segs = []  # (text, origin) origin = ('src', rel, byte) | ('tmpl', tline)
    pos = s0
    for e in edits:
        if e.pos > pos:
            segs.append((data[pos:e.pos], ("src", rel, pos)))
        if e.text:
            segs.append((e.text.encode(), ("tmpl", e.tline)))
        pos = max(pos, e.end)
        if e.end > e.pos or not e.rule.startswith("ins:"):
            log.append({"rule": e.rule, "file": rel, "fn": path, "line": line_of(data, e.pos),
                        "before": data[e.pos:e.end].decode(errors="replace"), "after": e.text})
    if pos < e0:
        segs.append((data[pos:e0], ("src", rel, pos)))
    body_bytes = data[it["body"][0]:it["body"][1]]
    info = {"file": rel, "path": path, "name": it["name"], "tags": tags, "stub": stub, "degraded": degraded,
            "line": line_of(data, it["sig"][0]), "end_line": line_of(data, e0),
            "body_sha": hashlib.sha256(body_bytes).hexdigest()[:16],
            "loops": len(it["loops"]), "n_edits": len(edits), "src_span": [s0, e0],
            "edits": [(e.pos, e.end, e.text, e.rule) for e in edits], "skipped_optional": skipped}
    return segs, info


ATTR_LINE = re.compile(rb"^[ \t]*#\[(serde|strum|enum_map|cfg_attr|doc\(hidden\)|non_exhaustive|error|from|default)\b[^\n]*\]\s*?\n", re.M)


ATTR_INLINE = re.compile(rb"#\[(serde|from|source|strum|enum_map)\b[^\]]*\][ \t]*")


def expand_type(repo, d, log):
    rel, path = d["file"], d["path"]
    ix = index(repo, rel)
    it = find_item(ix, "type", path, rel)
    data = ix["bytes"]
    s0, e0 = it["span"]
    derive = None
    extra_attrs = []
    rewrites = []
    for sec in d["sections"]:
        w = sec["head"].split(None, 1)
        if w[0] == "derive":
            derive = [x.strip() for x in w[1].split(",")] if len(w) > 1 else []
        elif w[0] == "attr":
            extra_attrs.append(w[1])
        elif w[0] == "rewrite":
            rewrites.append(ANCH.findall(sec["head"]))
        else:
            raise GenError(f"template line {sec['tline']}: unknown type section '{sec['head']}'")
    out = b""
    orig_derives = []
    for a in it["attrs"]:
        if a["name"] == "derive":
            inner = a["text"][a["text"].index("(") + 1:a["text"].rindex(")")]
            orig_derives += [x.strip().split("::")[-1] for x in inner.split(",") if x.strip()]
    if derive is None:
        derive = [x for x in orig_derives if x in DERIVE_KEEP]
    for x in derive:
        if x != "Structural" and x not in orig_derives:
            raise GenError(f"{rel}::{path}: template derives {x} but the repository type does not")
    # keep doc attrs, drop the rest, add the reduced derive
    pos = s0
    kept = b""
    for a in it["attrs"]:
        if a["name"] in ("doc", "cfg"):
            kept += data[a["span"][0]:a["span"][1]] + b"\n"
    head = kept
    if derive:
        head += f"#[derive({', '.join(derive)})]\n".encode()
    for x in extra_attrs:
        head += x.encode() + b"\n"
    body = data[it["after_attrs"]:e0]
    # X1: drop serde/strum/enum_map attribute lines on fields and variants
    stripped = ATTR_LINE.sub(b"", body)
    stripped = ATTR_INLINE.sub(b"", stripped)
    for ms in rewrites:
        (frm, _), (to, _) = ms
        if stripped.count(frm.encode()) != 1:
            raise GenError(f"{rel}::{path}: type rewrite anchor `{frm}` matches {stripped.count(frm.encode())} times")
        stripped = stripped.replace(frm.encode(), to.encode())
        log.append({"rule": "X1:visibility", "file": rel, "item": path, "line": line_of(data, s0), "before": frm, "after": to})
    log.append({"rule": "X1:type-attrs", "file": rel, "item": path, "line": line_of(data, s0),
                "before": ", ".join(orig_derives), "after": ", ".join(derive),
                "dropped_inner_attr_lines": [m.group(0).decode().strip() for m in ATTR_LINE.finditer(body)] + [m.group(0).decode().strip() for m in ATTR_INLINE.finditer(ATTR_LINE.sub(b"", body))]})
    segs = [(head, ("tmpl", d["tline"])), (stripped, ("src", rel, it["after_attrs"]) if not rewrites and stripped == body else ("tmpl", d["tline"]))]
    info = {"file": rel, "path": path, "kind": it["kind"], "line": line_of(data, s0), "derive": derive,
            "sha": hashlib.sha256(stripped).hexdigest()[:16]}
    return segs, info


def expand_verbatim(repo, d, kind, log):
    rel, path = d["file"], d["path"]
    ix = index(repo, rel)
    it = find_item(ix, kind, path, rel)
    data = ix["bytes"]
    s0, e0 = it["span"]
    start = s0
    # drop #[macro_export]/cfg(test) style attrs? keep everything except listed
    txt = data[it["after_attrs"]:e0] if kind == "macro" else data[s0:e0]
    if kind == "macro":
        start = it["after_attrs"]
    segs = [(txt, ("src", rel, start))]
    for sec in d["sections"]:
        if sec["head"].startswith("rewrite"):
            ms = ANCH.findall(sec["head"])
            (frm, _), (to, _) = ms
            if txt.count(frm.encode()) != 1:
                raise GenError(f"{rel}::{path}: rewrite anchor `{frm}` matches {txt.count(frm.encode())} times")
            txt = txt.replace(frm.encode(), to.encode())
            segs = [(txt, ("tmpl", d["tline"]))]
            log.append({"rule": "X4:rewrite", "file": rel, "item": path, "line": line_of(data, s0), "before": frm, "after": to})
    return segs, {"file": rel, "path": path, "kind": kind, "line": line_of(data, s0)}


def expand_closure_lift(repo, d, log):
    """X5: /*@ lift <file> <fn path> <closure ordinal>\nheader:\n  fn name(args) -> T\n@*/"""
    rel, path = d["file"], d["path"]
    k = int(d["flags"][0])
    ix = index(repo, rel)
    it = find_item(ix, "fn", path, rel)
    data = ix["bytes"]
    if k >= len(it["closures"]):
        raise GenError(f"{rel}::{path}: closure {k} not found")
    c = it["closures"][k]
    header = None
    spec = ""
    for sec in d["sections"]:
        kw = sec["head"].split()[0].rstrip(":")
        if kw == "header":
            header = "\n".join(sec["text"]).strip()
        elif kw == "spec":
            spec = "\n".join(sec["text"])
    if header is None:
        raise GenError(f"template line {d['tline']}: lift needs a header section")
    bs, be = c["body"]
    log.append({"rule": "X5:closure-lift", "file": rel, "fn": path, "line": line_of(data, c["span"][0]),
                "before": data[c["span"][0]:bs].decode(), "after": header})
    segs = [((header + "\n" + spec + "\n").encode(), ("tmpl", d["tline"]))]
    if not c["body_is_block"]:
        segs.append((b"{ ", ("tmpl", d["tline"])))
    segs.append((data[bs:be], ("src", rel, bs)))
    if not c["body_is_block"]:
        segs.append((b" }", ("tmpl", d["tline"])))
    info = {"file": rel, "path": path + "::{closure#%d}" % k, "name": header, "tags": [], "stub": False,
            "line": line_of(data, bs), "end_line": line_of(data, be), "loops": 0,
            "body_sha": hashlib.sha256(data[bs:be]).hexdigest()[:16]}
    return segs, info


def expand_bitflags(repo, d, log):
    """X8: the `bitflags!` invocation that declares <Name> is replaced by a plain struct over the same integer type
    with the same constants (values copied from the invocation) and the handful of bitflags methods the covered
    code uses, each with the obvious bit-level contract (TRUSTED stand-in for the bitflags crate)."""
    rel, name = d["file"], d["path"]
    path = os.path.join(repo, rel)
    if not os.path.exists(path):
        raise GenError(f"source file {rel} does not exist in the tree")
    src = open(path).read()
    m = re.search(r"bitflags!\s*\{(?:(?!bitflags!).)*?pub struct " + re.escape(name) + r":\s*(\w+)\s*\{(.*?)\n    \}\s*\n\}", src, re.S)
    if not m:
        raise GenError(f"{rel}: bitflags! declaration of {name} not found")
    ty, body = m.group(1), m.group(2)
    consts = re.findall(r"const\s+(\w+)\s*=\s*(.*?);", body, re.S)
    if not consts:
        raise GenError(f"{rel}: no constants in bitflags {name}")
    out = [f"#[derive(Clone, Copy)]\npub struct {name} {{ pub bits: {ty} }}", f"impl {name} {{"]
    for cn, ce in consts:
        e = " ".join(ce.split()).replace(".bits()", ".bits")
        out.append(f"    pub const {cn}: {name} = {name} {{ bits: {e} }};")
    out.append(f"""    pub open spec fn has(&self, other: {name}) -> bool {{ self.bits & other.bits == other.bits }}
    pub open spec fn meets(&self, other: {name}) -> bool {{ self.bits & other.bits != 0 }}
    #[verifier::external_body] pub fn contains(&self, other: Self) -> (r: bool) ensures r == self.has(other) {{ self.bits & other.bits == other.bits }}
    #[verifier::external_body] pub fn intersects(&self, other: Self) -> (r: bool) ensures r == self.meets(other) {{ self.bits & other.bits != 0 }}
    #[verifier::external_body] pub fn empty() -> (r: Self) ensures r.bits == 0 {{ Self {{ bits: 0 }} }}
    #[verifier::external_body] pub fn bits(&self) -> (r: {ty}) ensures r == self.bits {{ self.bits }}
    #[verifier::external_body] pub fn union(self, other: Self) -> (r: Self) ensures r.bits == self.bits | other.bits {{ Self {{ bits: self.bits | other.bits }} }}
    #[verifier::external_body] pub fn insert(&mut self, other: Self) ensures final(self).bits == old(self).bits | other.bits {{ self.bits |= other.bits; }}
}}""")
    out.append(f"""impl core::ops::BitOr for {name} {{
    type Output = {name};
    #[verifier::external_body] fn bitor(self, other: Self) -> (r: Self) ensures r.bits == self.bits | other.bits {{ Self {{ bits: self.bits | other.bits }} }}
}}
impl core::ops::BitOrAssign for {name} {{
    #[verifier::external_body] fn bitor_assign(&mut self, other: Self) ensures final(self).bits == old(self).bits | other.bits {{ self.bits |= other.bits; }}
}}""")
    text = "\n".join(out) + "\n"
    line = src.count("\n", 0, m.start()) + 1
    log.append({"rule": "X8:bitflags", "file": rel, "item": name, "line": line,
                "before": "bitflags! { struct " + name + ": " + ty + " { " + ", ".join(c for c, _ in consts) + " } }",
                "after": "plain struct with the same constants and trusted contains/intersects/empty/bits/union/insert"})
    return [(text.encode(), ("tmpl", d["tline"]))], {"file": rel, "path": name, "kind": "bitflags", "line": line, "consts": [c for c, _ in consts]}


DIRECTIVE = re.compile(r"/\*@ (.*?)@\*/", re.S)


def expand(repo, template_path, out_path, include_dirs=(), force_stub=(), renames=None):
    """Expand a template; returns meta dict (functions, types, edit log, segment map)."""
    text = open(template_path).read()
    # textual includes first:  //@include name
    def inc(m):
        for dd in (os.path.dirname(template_path),) + tuple(include_dirs):
            p = os.path.join(dd, m.group(1))
            if os.path.exists(p):
                return open(p).read()
        raise GenError(f"include {m.group(1)} not found")
    for _ in range(4):
        text2 = re.sub(r"^//@include (\S+)[ \t]*$", inc, text, flags=re.M)
        if text2 == text:
            break
        text = text2
    log = []
    _tls.all_renames = renames or {}
    _tls.anchor_map = {}
    amp = re.sub(r"\.rs$", ".anchors.json", template_path)
    if os.path.exists(amp) and _record_anchors is None:
        _tls.anchor_map = json.load(open(amp))
    fns, types, others = [], [], []
    out = []  # (bytes, origin)
    pos = 0
    for m in DIRECTIVE.finditer(text):
        tline = text.count("\n", 0, m.start()) + 1
        out.append((text[pos:m.start()].encode(), ("tmpl", text.count("\n", 0, pos) + 1)))
        d = parse_directive(m.group(1), tline)
        if d["kind"] == "fn":
            segs, info = expand_fn(repo, d, log, force_stub)
            fns.append(info)
        elif d["kind"] == "type":
            segs, info = expand_type(repo, d, log)
            types.append(info)
        elif d["kind"] in ("const", "macro", "trait", "impl"):
            segs, info = expand_verbatim(repo, d, d["kind"], log)
            others.append(info)
        elif d["kind"] == "bitflags":
            segs, info = expand_bitflags(repo, d, log)
            types.append(info)
        elif d["kind"] == "lift":
            segs, info = expand_closure_lift(repo, d, log)
            fns.append(info)
        else:
            raise GenError(f"template line {tline}: unknown directive '{d['kind']}'")
        g0 = sum(len(b) for b, _ in out)
        out.extend(segs)
        g1 = sum(len(b) for b, _ in out)
        info["gen_span"] = [g0, g1]
        pos = m.end()
    out.append((text[pos:].encode(), ("tmpl", text.count("\n", 0, pos) + 1)))
    blob = b"".join(b for b, _ in out)
    with open(out_path, "wb") as f:
        f.write(blob)
    # segment map: gen byte offset -> origin
    segmap = []
    g = 0
    for b, o in out:
        if b:
            segmap.append((g, g + len(b), o))
        g += len(b)
    meta = {"repo": repo, "template": template_path, "out": out_path, "fns": fns, "types": types, "others": others,
            "log": log, "segmap": segmap, "gen_len": len(blob)}
    verify_fidelity(repo, meta, blob)
    return meta


def propose_renames(repo, template_path, fn_key, missing):
    """fn_key = 'file::path'; missing = identifiers the compiler could not find in that function's spliced text.
    If the function has as many pattern-bound locals as on the pristine tree, the local at the same position is the new name."""
    amp = re.sub(r"\.rs$", ".anchors.json", template_path)
    if not os.path.exists(amp):
        return {}
    old = json.load(open(amp)).get(fn_key, {}).get("__locals__")
    rel, path = fn_key.split("::", 1)
    try:
        it = find_item(index(repo, rel), "fn", path, rel)
    except GenError:
        return {}
    cur = it.get("locals", [])
    if not old or len(old) != len(cur):
        return {}
    out = {}
    for x in missing:
        if x in old and x not in cur:
            i = old.index(x)
            if cur[i] not in old:
                out[x] = cur[i]
    return out


def verify_fidelity(repo, meta, blob):
    """Undo every logged edit in the generated text of each extracted fn and compare with /repo."""
    for f in meta["fns"]:
        if "edits" not in f:
            continue
        ix = index(repo, f["file"])
        data = ix["bytes"]
        s0, e0 = f["src_span"]
        g0, g1 = f["gen_span"]
        gen = blob[g0:g1]
        # walk: reconstruct original from gen by skipping inserted texts / restoring replaced ones
        rec = b""
        gp = 0
        sp = s0
        for (p, e, t, rule) in f["edits"]:
            n = p - sp
            if n < 0:
                continue
            rec += gen[gp:gp + n]
            gp += n
            tb = t.encode()
            if gen[gp:gp + len(tb)] != tb:
                raise GenError(f"fidelity: {f['file']}::{f['path']}: edit text not found where logged")
            gp += len(tb)
            rec += data[p:e]
            sp = e
        rec += gen[gp:]
        if rec != data[s0:e0]:
            raise GenError(f"fidelity: {f['file']}::{f['path']}: generated text differs from the repository outside logged edits")
    return True


def map_offset(meta, off):
    """gen byte offset -> ('src', file, line) | ('tmpl', line)"""
    for g0, g1, o in meta["segmap"]:
        if g0 <= off < g1:
            if o[0] == "src":
                data = index(meta["repo"], o[1])["bytes"]
                return ("src", o[1], line_of(data, o[2] + (off - g0)))
            else:
                blob = meta.get("_blob")
                return ("tmpl", o[1])
    return ("tmpl", 0)


if __name__ == "__main__":
    if sys.argv[1] == "--record-anchors":
        # vgen.py --record-anchors <pristine repo> <template>...   writes <template>.anchors.json
        for tmpl in sys.argv[3:]:
            _record_anchors = {}
            expand(sys.argv[2], tmpl, "/dev/null" if False else os.path.join(os.environ.get("TMPDIR", "/tmp"), "vgen_anchors_scratch.rs"))
            with open(re.sub(r"\.rs$", ".anchors.json", tmpl), "w") as f:
                json.dump(_record_anchors, f, indent=1, sort_keys=True)
            print(tmpl, sum(len(v) for v in _record_anchors.values()), "anchors recorded")
        sys.exit(0)
    repo, tmpl, out = sys.argv[1:4]
    try:
        m = expand(repo, tmpl, out)
    except GenError as e:
        print("GEN-ERROR:", e)
        sys.exit(2)
    print(json.dumps({"fns": [(f["file"], f["path"]) for f in m["fns"]], "edits": m["log"]}, indent=1))
