#!/usr/bin/env python3
"""vrun — run Verus on an expanded unit and classify every diagnostic (DESIGN.md §2.2/2.3)."""
import json
import os
import re
import subprocess
import time

import vgen

TAG = re.compile(r"\[(C\d\d(?:\s*,\s*C\d\d)*|panic|aux)\]")

EXTERNAL_KINDS = ("post", "pre@callee", "panic", "overflow", "term")


def _innermost_in_file(span, fname):
    """walk a rustc JSON span's macro expansion chain; return the outermost call-site span that
    lies in `fname` (the place in the extracted code), else None"""
    best = None
    s = span
    while s is not None:
        if os.path.basename(s.get("file_name", "")) == fname:
            best = s
        exp = s.get("expansion")
        s = exp.get("span") if exp else None
    return best


def classify_message(msg):
    m = msg.lower()
    if "post-condition of closure" in m or "postcondition of closure" in m:
        return "closure-post"
    if "postcondition not satisfied" in m:
        return "post"
    if "precondition not satisfied" in m:
        return "pre"
    if "underflow" in m or "overflow" in m or "division by zero" in m or "bit shift" in m:
        return "overflow"
    if "assertion failed" in m or "assertion not satisfied" in m:
        return "hint"
    if "invariant not satisfied" in m:
        return "inv"
    if "decreases" in m or "termination" in m:
        return "term"
    if "rlimit" in m or "resource limit" in m or "timed out" in m:
        return "rlimit"
    if "unreachable" in m or "panic" in m:
        return "panic"
    return "other"


def run_verus(gen_path, rlimit=None, seed=None, extra=(), timeout=1800):
    cmd = ["verus", os.path.basename(gen_path), "--output-json", "--error-format=json", "--time",
           "--multiple-errors", "4"]
    if rlimit:
        cmd += ["--rlimit", str(rlimit)]
    if seed is not None:
        cmd += ["--smt-option", f"smt.random_seed={seed}", "--smt-option", f"sat.random_seed={seed}"]
    cmd += list(extra)
    t0 = time.time()
    try:
        p = subprocess.run(cmd, cwd=os.path.dirname(gen_path), capture_output=True, text=True, timeout=timeout)
        out, err, rc = p.stdout, p.stderr, p.returncode
    except subprocess.TimeoutExpired as e:
        out, err, rc = (e.stdout or b"").decode(errors="replace") if isinstance(e.stdout, bytes) else (e.stdout or ""), "TIMEOUT", 124
    wall = time.time() - t0
    # stdout: one big JSON object (possibly preceded by nothing); stderr: JSON diagnostics per line
    result = None
    try:
        i = out.index("{")
        result = json.loads(out[i:])
    except Exception:
        result = None
    diags = []
    for ln in err.splitlines():
        ln = ln.strip()
        if ln.startswith("{") and '"$message_type"' in ln:
            try:
                diags.append(json.loads(ln))
            except Exception:
                pass
    return {"cmd": " ".join(cmd), "rc": rc, "result": result, "diags": diags, "stderr": err, "wall_s": wall}


def analyse(meta, run, gen_path):
    """-> dict(functions=[...], failures=[...], undecided=[...], smt_ms=..)"""
    fname = os.path.basename(gen_path)
    gen = open(gen_path, "rb").read()
    gen_lines = gen.split(b"\n")
    fns = meta["fns"]

    def fn_at(off):
        for f in fns:
            if f["gen_span"][0] <= off < f["gen_span"][1]:
                return f
        return None

    def src_loc(off):
        for g0, g1, o in meta["segmap"]:
            if g0 <= off < g1:
                if o[0] == "src":
                    data = vgen.index(meta["repo"], o[1])["bytes"]
                    return {"file": o[1], "line": vgen.line_of(data, o[2] + (off - g0))}
                return {"template_line": o[1]}
        return {}

    def tags_on_lines(l0, l1):
        ts = []
        # comment lines directly above a clause belong to it
        while l0 - 1 >= 1 and gen_lines[l0 - 2].strip().startswith(b"//"):
            l0 -= 1
        for ln in range(l0, min(l1, l0 + 40) + 1):
            if 1 <= ln <= len(gen_lines):
                for m in TAG.finditer(gen_lines[ln - 1].decode(errors="replace")):
                    ts += [x.strip() for x in m.group(1).split(",")]
        return ts

    failures, undecided = [], []
    res = run["result"]
    vr = (res or {}).get("verification-results", {})
    if res is None or vr.get("encountered-vir-error") or (vr.get("encountered-error") and not any(
            d.get("level") == "error" and classify_message(d.get("message", "")) != "other" for d in run["diags"])):
        # compile / mode / unsupported-construct error: the code could not be put to the verifier
        msgs = [d.get("message", "") for d in run["diags"] if d.get("level") == "error"][:5]
        if not msgs:
            msgs = [run["stderr"][-800:]]
        # which extracted functions do the compile errors sit in?  (used by the caller to retry with those functions
        # replaced by assumed stubs, so that a renamed local that a spliced hint mentions costs one function, not the unit)
        rej, outside = set(), 0
        rej_names = {}
        for d in run["diags"]:
            if d.get("level") != "error" or d.get("message", "").startswith("aborting due to"):
                continue
            hit = None
            for sp in d.get("spans", []):
                inner = _innermost_in_file(sp, fname)
                if inner is not None:
                    ff = fn_at(inner["byte_start"])
                    if ff is not None and not ff.get("stub"):
                        hit = f"{ff['file']}::{ff['path']}"
                        if sp.get("is_primary"):
                            break
            if hit:
                rej.add(hit)
                mm = re.search(r"cannot find value `(\w+)` in this scope", d.get("message", ""))
                if mm:
                    rej_names.setdefault(hit, set()).add(mm.group(1))
            else:
                outside += 1
        undecided.append({"reason": "verus-rejected", "messages": msgs, "reject_fns": sorted(rej) if not outside else [],
                          "missing_names": {k: sorted(v) for k, v in rej_names.items()}})
    for d in run["diags"]:
        if d.get("level") != "error":
            continue
        msg = d.get("message", "")
        if msg.startswith("aborting due to"):
            continue
        kind = classify_message(msg)
        prim = None
        labels = []
        for sp in d.get("spans", []):
            inner = _innermost_in_file(sp, fname)
            if sp.get("is_primary") and inner is not None and prim is None:
                prim = inner
            labels.append((sp.get("label"), sp, inner))
        if prim is None:
            for _, sp, inner in labels:
                if inner is not None:
                    prim = inner
                    break
        f = fn_at(prim["byte_start"]) if prim else None
        tags = []
        clause = None
        ext_clause = False
        for lab, sp, inner in labels:
            if lab and ("failed precondition" in lab or "failed this postcondition" in lab):
                if kind == "closure-post" and inner is not None:
                    tags += tags_on_lines(inner["line_start"], inner["line_end"])
                if inner is not None and os.path.basename(sp.get("file_name", "")) == fname:
                    tags += tags_on_lines(inner["line_start"], inner["line_end"])
                    clause = b"\n".join(gen_lines[inner["line_start"] - 1:inner["line_end"]]).decode(errors="replace").strip()[:300]
                else:
                    ext_clause = True   # precondition of a vstd/core specification: unwrap, index, slice, panic...
                    clause = f"{sp.get('file_name')}:{sp.get('line_start')}"
        if kind in ("inv", "hint") and prim is not None:
            # a loop `ensures` / invariant reported at a loop exit: the clause is the span labelled "failed this invariant"
            cl = next((inner for lab, sp, inner in labels if lab and "failed this invariant" in lab and inner is not None), None) or prim
            tags += tags_on_lines(cl["line_start"], cl["line_end"])
            clause = b"\n".join(gen_lines[cl["line_start"] - 1:cl["line_end"]]).decode(errors="replace").strip()[:300]
        if kind == "closure-post":
            kind = "inv"      # an internal obligation: the contract spliced onto a closure literal
        if kind == "pre":
            if ext_clause or "panic" in tags or clause is None:
                kind = "panic"
            else:
                kind = "pre@callee"
        if kind == "other":
            undecided.append({"reason": "verus-error", "messages": [msg]})
            continue
        loc = src_loc(prim["byte_start"]) if prim else {}
        fn_name = f"{f['file']}::{f['path']}" if f else "<template>"
        line = loc.get("line") or (f["line"] if f else 0)
        name = f"{fn_name}::{kind}@{line}"
        if clause and kind in ("post", "inv", "pre@callee"):
            import hashlib
            name += "#" + hashlib.sha256(" ".join(clause.split()).encode()).hexdigest()[:6]
        if any(x["obligation"] == name for x in failures):
            continue
        text = ""
        if prim:
            text = b"\n".join(gen_lines[prim["line_start"] - 1:prim["line_end"]]).decode(errors="replace").strip()[:200]
        failures.append({"obligation": name, "kind": kind, "fn": fn_name, "fn_tags": f["tags"] if f else [],
                         "tags": sorted(set(t for t in tags if t.startswith("C"))), "message": msg, "clause": clause,
                         "at": loc, "code": text, "in_template": f is None,
                         "fn_skipped_optional": bool(f and f.get("skipped_optional")),
                         "fn_degraded": list(f.get("degraded") or []) if f else [],
                         "rendered": d.get("rendered", "")[:3000]})
    # per-function results
    functions = []
    smt_ms = 0
    rl_total = 0
    if res:
        t = res.get("times-ms", {})
        for mod in t.get("smt", {}).get("smt-run-module-times", []):
            for fb in mod.get("function-breakdown", []):
                functions.append({"verus_fn": fb["function"], "mode": fb.get("mode:", fb.get("mode")),
                                  "time_us": fb.get("time-micros", 0), "rlimit": fb.get("rlimit", 0),
                                  "success": fb.get("success", False)})
        smt_ms = t.get("smt", {}).get("smt-run", 0)
    return {"functions": functions, "failures": failures, "undecided": undecided, "smt_ms": smt_ms,
            "verified": vr.get("verified"), "errors": vr.get("errors"), "wall_s": run["wall_s"], "cmd": run["cmd"]}


def match_functions(meta, analysis):
    """attach the Verus per-function result to every extracted function"""
    out = []
    by = analysis["functions"]
    for f in meta["fns"]:
        p = f["path"]
        m = re.match(r"<(\w+) for (\w+)>::(\w+)", p)
        if m:
            p = f"{m.group(2)}::{m.group(3)}"
        p = p.replace("::{closure#", "#")
        modhint = f["file"].replace("src/", "").replace(".rs", "").replace("/mod", "").replace("/", "::")
        cands = [x for x in by if x["verus_fn"].endswith("::" + p) and x["mode"] == "exec"]
        if len(cands) > 1:
            c2 = [x for x in cands if ("::" + modhint + "::") in x["verus_fn"]]
            if c2:
                cands = c2
        rec = {"file": f["file"], "fn": f["path"], "line": f["line"], "tags": f["tags"], "stub": f.get("stub", False),
               "body_sha": f.get("body_sha"), "degraded": list(f.get("degraded") or [])}
        if f.get("stub"):
            rec["status"] = "assumed"
        elif len(cands) >= 1:
            rec["status"] = "proved" if all(c["success"] for c in cands) else "failed"
            rec["smt_us"] = sum(c["time_us"] for c in cands)
            rec["rlimit"] = sum(c["rlimit"] for c in cands)
            rec["verus_fn"] = cands[0]["verus_fn"]
        else:
            rec["status"] = "not-reported"
        out.append(rec)
    return out


def make_canary(meta, gen_path, out_path):
    """copy of the generated file with `assert(false)` at the start of every extracted, non-stub
    function body: every one of them must FAIL, otherwise its precondition is contradictory."""
    gen = open(gen_path, "rb").read()
    inserts = []
    for f in meta["fns"]:
        if f.get("stub") or "edits" not in f:
            continue
        # body start in gen coordinates: find via segmap the source offset of body '{'
        ix = vgen.index(meta["repo"], f["file"])
        it = vgen.find_item(ix, "fn", f["path"], f["file"])
        b0 = it["body"][0]
        for g0, g1, o in meta["segmap"]:
            if o[0] == "src" and o[1] == f["file"] and o[2] <= b0 < o[2] + (g1 - g0) and f["gen_span"][0] <= g0 < f["gen_span"][1]:
                inserts.append(g0 + (b0 - o[2]) + 1)
                break
    inserts.sort(reverse=True)
    for off in inserts:
        gen = gen[:off] + b" proof { assert(false); } " + gen[off:]
    open(out_path, "wb").write(gen)
    return len(inserts)
