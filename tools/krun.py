"""krun — Kani side (weave, run, classify, replay). Filled in below."""
def run_kani_group(root, plan, names, snap, sd, prop, tier):
    return []
def replay_file(path, repo, sd):
    print("replay: not implemented yet")
    return 2
