#!/usr/bin/env python3
"""krun — Kani side of the contract machinery (DESIGN.md §2.1 step 3, §2.4).

A unit file (contracts/kani/<unit>.krs) is Rust text that is *appended* to one real source file of a
scratch copy of /repo (child module => private items are reachable; nothing in the file is rewritten).
Header lines:

    //@ file src/aisle.rs
    //@ lift parse 0 :: fn calc_span_lifted(input: &str, s: &str) -> Span     (X5: closure body extracted)
    //@ native-table                       (K2/K3: run the real FractionLookupTable::new() natively, emit literal)
    //@ harness name=<fn> tags=C03,C11 level=complete|bounded target=<real fn> [bound="..."] [timeout=600]

Every harness is run as its own `cargo kani --harness` process.  FAILURE of a check => violation,
replayed natively through Kani's concrete playback (real function, real panic).  Unwinding-assertion
failures, timeouts, crashes => undecided.
"""
import concurrent.futures as cf
import json
import os
import re
import shlex
import shutil
import subprocess
import time

import vgen

KANI_FLAGS = ["-Z", "function-contracts", "-Z", "stubbing"]
MAX_PAR = int(os.environ.get("VERIF_KANI_PAR", "5"))


def parse_unit(path):
    txt = open(path).read()
    meta = {"file": None, "lifts": [], "native_table": False, "harnesses": [], "text": txt}
    for ln in txt.splitlines():
        if not ln.startswith("//@"):
            continue
        w = ln[3:].strip()
        if w.startswith("file "):
            meta["file"] = w.split()[1]
        elif w.startswith("lift "):
            a, hdr = w[5:].split("::", 1)
            fn, k = a.split()
            meta["lifts"].append({"fn": fn, "k": int(k), "header": hdr.strip()})
        elif w.startswith("native-table"):
            meta["native_table"] = True
        elif w.startswith("harness "):
            kv = dict((m.group(1), m.group(2).strip('"')) for m in re.finditer(r'(\w+)=("[^"]*"|\S+)', w[8:]))
            kv["tags"] = kv.get("tags", "").split(",")
            kv["timeout"] = int(kv.get("timeout", "900"))
            meta["harnesses"].append(kv)
    return meta


_held_locks = []


def env_offline(target_dir):
    e = dict(os.environ)
    e["CARGO_NET_OFFLINE"] = "true"
    e["CARGO_TARGET_DIR"] = target_dir
    return e


def weave(root, unit, um, kdir, log):
    """append the unit text (and lifted closures / native table) to the real file in kdir"""
    rel = um["file"]
    path = os.path.join(kdir, rel)
    if not os.path.exists(path):
        raise vgen.GenError(f"{rel} does not exist in the tree")
    add = f"\n\n// ===== woven by /verif/check: contracts/kani/{unit}.krs =====\n"
    for lf in um["lifts"]:
        ix = vgen.index(kdir, rel)
        it = vgen.find_item(ix, "fn", lf["fn"], rel)
        if lf["k"] >= len(it["closures"]):
            raise vgen.GenError(f"{rel}::{lf['fn']}: closure {lf['k']} not found")
        c = it["closures"][lf["k"]]
        data = ix["bytes"]
        body = data[c["body"][0]:c["body"][1]].decode()
        if not c["body_is_block"]:
            body = "{ " + body + " }"
        cur_lines = open(path).read().count("\n") + add.count("\n")
        add += f"#[cfg(any(kani, verif_replay))]\n#[allow(dead_code)]\n{lf['header']} {body}\n"
        # lines of the lifted body in the woven file -> lines of the closure body in the repository file
        first_new = cur_lines + 3
        first_old = vgen.line_of(data, c["body"][0])
        um.setdefault("linemap", []).append((first_new, first_new + body.count("\n"), first_old))
        log.append({"rule": "X5:closure-lift", "file": rel, "fn": lf["fn"], "line": vgen.line_of(data, c["span"][0]),
                    "before": data[c["span"][0]:c["body"][0]].decode(), "after": lf["header"]})
    add += um["text"]
    first = open(path).read().count("\n") + 1
    with open(path, "a") as f:
        f.write(add)
    um["woven_lines"] = (first, first + add.count("\n") + 1)      # line range of this unit in the woven file
    um["woven_text"] = add
    return path


def native_table(kdir, target_dir):
    """run the real FractionLookupTable::new() natively in the scratch copy and return the literal"""
    path = os.path.join(kdir, "src/quantity.rs")
    with open(path, "a") as f:
        f.write('''
#[cfg(test)]
mod verif_dump_table {
    #[test]
    fn verif_dump_table() {
        let t = super::FractionLookupTable::new();
        let s: Vec<String> = t.0.iter().map(|(x, (n, d))| format!("({x},({n},{d}))")).collect();
        println!("VERIF_TABLE[{}]", s.join(","));
    }
}
''')
    p = subprocess.run(["cargo", "test", "--offline", "--lib", "-p", "cooklang", "verif_dump_table", "--", "--nocapture", "--exact",
                        "quantity::verif_dump_table::verif_dump_table"],
                       cwd=kdir, env=env_offline(target_dir + "-native"), capture_output=True, text=True, timeout=1200)
    m = re.search(r"VERIF_TABLE\[(.*)\]", p.stdout)
    if not m:
        raise vgen.GenError("native run of FractionLookupTable::new() failed: " + (p.stderr[-600:] or p.stdout[-600:]))
    return m.group(1)


CHECK = re.compile(r"^Check (\d+): (.+?)\n\t - Status: (\w+)\n\t - Description: \"(.*?)\"\n\t - Location: (.*?)$", re.M)


def run_harness(kdir, target_dir, h, extra=()):
    cmd = ["cargo", "kani", "-p", "cooklang"] + KANI_FLAGS + ["--harness", h["name"]] + list(extra)
    t0 = time.time()
    try:
        p = subprocess.run(cmd, cwd=kdir, env=env_offline(target_dir), capture_output=True, text=True, timeout=h["timeout"])
        out, rc = p.stdout + "\n" + p.stderr, p.returncode
        timed_out = False
    except subprocess.TimeoutExpired as e:
        out = ((e.stdout or b"").decode(errors="replace") if isinstance(e.stdout, bytes) else (e.stdout or ""))
        rc, timed_out = 124, True
        subprocess.run("pkill -f 'cbmc.*" + re.escape(h["name"]) + "' || true", shell=True)
    wall = time.time() - t0
    r = {"name": h["name"], "cmd": " ".join(cmd), "rc": rc, "wall_s": round(wall, 1), "timed_out": timed_out, "out_tail": out[-3000:]}
    checks = [{"id": m.group(1), "name": m.group(2), "status": m.group(3), "desc": m.group(4), "loc": m.group(5)} for m in CHECK.finditer(out)]
    r["n_checks"] = len([c for c in checks if c["status"] in ("SUCCESS", "FAILURE")])
    r["n_ok"] = len([c for c in checks if c["status"] == "SUCCESS"])
    r["failed"] = [c for c in checks if c["status"] == "FAILURE"]
    m = re.search(r"Verification Time: ([0-9.]+)s", out)
    r["time_s"] = float(m.group(1)) if m else None
    m = re.search(r"\*\* (\d+) of (\d+) cover properties satisfied", out)
    r["cover"] = (int(m.group(1)), int(m.group(2))) if m else None
    r["verdict"] = "SUCCESSFUL" if "VERIFICATION:- SUCCESSFUL" in out else ("FAILED" if "VERIFICATION:- FAILED" in out else "NONE")
    return r


def playback(kdir, target_dir, h, um):
    """Kani concrete playback: generate the unit test for the counterexample in place and run it natively."""
    cmd = ["cargo", "kani", "-p", "cooklang"] + KANI_FLAGS + ["-Z", "concrete-playback", "--concrete-playback=inplace", "--harness", h["name"]]
    try:
        p = subprocess.run(cmd, cwd=kdir, env=env_offline(target_dir), capture_output=True, text=True, timeout=h["timeout"])
    except subprocess.TimeoutExpired:
        return {"reproduced": False, "note": "timeout while generating the concrete playback test"}
    src = open(os.path.join(kdir, um["file"])).read()
    tests = re.findall(r"fn (kani_concrete_playback_" + re.escape(h["name"]) + r"_\w+)\(\)", src)
    if not tests:
        return {"reproduced": False, "note": "Kani produced no concrete playback test", "tail": (p.stdout + p.stderr)[-800:]}
    tname = tests[-1]
    m = re.search(r"(#\[test\]\s*fn " + re.escape(tname) + r"\(\).*?\n\})", src, re.S)
    test_src = m.group(1) if m else ""
    cmd2 = ["cargo", "kani", "playback", "-p", "cooklang", "-Z", "concrete-playback", "--", tname]
    try:
        q = subprocess.run(cmd2, cwd=kdir, env=env_offline(target_dir + "-playback"), capture_output=True, text=True, timeout=1500)
    except subprocess.TimeoutExpired:
        return {"reproduced": False, "note": "timeout in native playback", "test": test_src}
    out = q.stdout + q.stderr
    pan = re.findall(r"panicked at ([^\n]*)\n([^\n]*)", out)
    # a panic inside the playback driver itself ("Not enough det vals found") is not a reproduction
    pan = [(a, b) for a, b in pan if "concrete_playback.rs" not in a]
    failed = bool(pan)
    return {"reproduced": bool(failed), "test": test_src, "panic": [f"{a} {b}".strip() for a, b in pan][:3],
            "cmd": " ".join(cmd2), "tail": out[-1200:]}


def run_kani_group(root, plan, names, snap, sd, prop, tier):
    """names: kani unit names.  Returns one result dict per unit."""
    kdir = os.path.join(sd, "kani_repo")
    subprocess.run(["rsync", "-a", "--delete", snap.rstrip("/") + "/", kdir + "/"], check=True)
    # the scratch copy is verified as a single crate (bindings/playground/fuzz are not part of any unit)
    ct = os.path.join(kdir, "Cargo.toml")
    s = open(ct).read()
    s = re.sub(r"members\s*=\s*\[[^\]]*\]", 'members = ["."]', s)
    open(ct, "w").write(s)
    # shared build cache; two checks running at the same time must not build into the same directory (cargo would interleave
    # the artefacts of two different source snapshots), so each run takes an exclusive lock on the first free slot
    base_target = os.environ.get("VERIF_KANI_TARGET", os.path.join(root, ".cache", "kani-target"))
    target_dir = None
    import fcntl
    for slot in range(6):
        cand = base_target if slot == 0 else f"{base_target}-{slot}"
        os.makedirs(cand, exist_ok=True)
        lk = open(os.path.join(cand, ".verif-lock"), "w")
        try:
            fcntl.flock(lk, fcntl.LOCK_EX | fcntl.LOCK_NB)
            target_dir = cand
            break
        except OSError:
            lk.close()
    if target_dir is None:
        target_dir = base_target
        lk = open(os.path.join(target_dir, ".verif-lock"), "w")
        fcntl.flock(lk, fcntl.LOCK_EX)
    _held_locks.append(lk)     # released when the process exits
    results = {}
    units = {}
    vgen._index_cache.clear()
    for u in names:
        cfg = plan["kani_units"][u]
        um = parse_unit(os.path.join(root, cfg["template"]))
        units[u] = um
        r = {"unit": u, "engine": "kani", "undecided": [], "failures": [], "harnesses": [], "log": [],
             "trusted": list(cfg.get("trusted", [])), "verification_s": 0.0, "cmd": ""}
        results[u] = r
        try:
            if um["native_table"]:
                lit = native_table(kdir, target_dir)
                um["text"] = um["text"].replace("/*@NATIVE_TABLE@*/", lit)
                r["native_table"] = lit
            weave(root, u, um, kdir, r["log"])
        except (vgen.GenError, subprocess.TimeoutExpired) as e:
            r["undecided"].append({"reason": "weave", "messages": [str(e)]})
    # one build first (so that the parallel harness runs only do CBMC work)
    todo = []
    for u, um in units.items():
        if results[u]["undecided"]:
            continue
        for h in um["harnesses"]:
            if h.get("tier") == "thorough" and tier != "thorough":
                continue
            if prop not in h["tags"]:
                continue
            todo.append((u, h))
    for attempt in range(4):
        if not todo:
            break
        b = subprocess.run(["cargo", "kani", "-p", "cooklang", "--only-codegen"] + KANI_FLAGS, cwd=kdir, env=env_offline(target_dir),
                           capture_output=True, text=True)
        if b.returncode == 0:
            break
        out = (b.stderr or "") + (b.stdout or "")
        msg = out[-1500:]
        # which woven harness modules do the compile errors sit in?  (a harness that builds a struct literal stops compiling
        # when the repository adds a field: that costs this unit, not every Kani unit of the run)
        culprits = set()
        for m_ in re.finditer(r"^error(?:\[E\d+\])?:.*?\n\s*--> (src/[\w/]+\.rs):(\d+):", out, re.M):
            f_, ln = m_.group(1), int(m_.group(2))
            for u, um in units.items():
                if um["file"] == f_ and "woven_lines" in um and um["woven_lines"][0] <= ln <= um["woven_lines"][1] and not results[u]["undecided"]:
                    culprits.add(u)
        if not culprits or attempt == 3:
            for u in units:
                if not results[u]["undecided"]:
                    results[u]["undecided"].append({"reason": "kani-build-failed", "messages": [msg]})
            return list(results.values())
        for u in culprits:
            results[u]["undecided"].append({"reason": "kani-harness-does-not-compile", "messages": [u + ": " + msg[-600:]]})
        # rebuild the woven files without the culprits
        by_file = {}
        for u, um in units.items():
            by_file.setdefault(um["file"], []).append(u)
        for f_, us in by_file.items():
            path = os.path.join(kdir, f_)
            src = os.path.join(snap, f_)
            if not any(u in culprits for u in us) or not os.path.exists(src):
                continue
            base = open(src).read()
            for u in us:
                if results[u]["undecided"] or "woven_text" not in units[u]:
                    continue
                first = base.count("\n") + 1
                base += units[u]["woven_text"]
                units[u]["woven_lines"] = (first, first + units[u]["woven_text"].count("\n") + 1)
            open(path, "w").write(base)
        todo = [(u, h) for u, h in todo if not results[u]["undecided"]]
    with cf.ThreadPoolExecutor(max_workers=MAX_PAR) as ex:
        futs = {ex.submit(run_harness, kdir, target_dir, h): (u, h) for u, h in todo}
        for f in cf.as_completed(futs):
            u, h = futs[f]
            r = results[u]
            hr = f.result()
            rec = {"name": h["name"], "file": units[u]["file"], "target": h.get("target", ""), "tags": h["tags"],
                   "level": "bounded" if h.get("level") == "bounded" else "proof", "bound": h.get("bound"),
                   "checks": hr["n_checks"], "checks_ok": hr["n_ok"], "time_s": hr["time_s"], "wall_s": hr["wall_s"],
                   "status": hr["verdict"], "cmd": hr["cmd"]}
            r["cmd"] = hr["cmd"]
            r["verification_s"] += hr["time_s"] or 0.0
            # a failed check that only says "Kani cannot model this" (foreign function, inline assembly, unsupported feature) is
            # a tool limit: once any such check fails, nothing else in the harness is trusted either (undecided, never an alarm)
            unsupported = [c for c in hr["failed"] if re.search(r"not currently supported by Kani|is not supported|unsupported|inline assembly", c["desc"], re.I)]
            real_fail = [c for c in hr["failed"] if "unwinding assertion" not in c["desc"] and c not in unsupported]
            unwind_fail = [c for c in hr["failed"] if "unwinding assertion" in c["desc"]]
            if unsupported:
                r["undecided"].append({"reason": "kani-unsupported-construct", "messages": [h["name"] + ": " + unsupported[0]["desc"][:300]]})
                rec["status"] = "unsupported"
                r["harnesses"].append(rec)
                continue
            if hr["timed_out"]:
                r["undecided"].append({"reason": "kani-timeout", "messages": [f"{h['name']} after {h['timeout']} s"]})
                rec["status"] = "timeout"
            elif hr["verdict"] == "NONE":
                r["undecided"].append({"reason": "kani-no-verdict", "messages": [h["name"] + ": " + hr["out_tail"][-600:]]})
                rec["status"] = "no-verdict"
            elif real_fail:
                pb = playback(kdir, target_dir, h, units[u])
                native_line = None
                for pl in pb.get("panic", []) or []:
                    mm = re.match(r"(src/[\w/]+\.rs):(\d+):", pl)
                    if mm:
                        native_line = (mm.group(1), mm.group(2))
                        break
                for c in real_fail[:4]:
                    in_harness = "verif_kani" in c["loc"] or "verif_kani" in c["name"]
                    kind = "post" if in_harness else ("overflow" if "overflow" in c["desc"] else "panic")
                    line = re.search(r":(\d+):\d+", c["loc"])
                    if line and not in_harness:
                        ln = int(line.group(1))
                        for a, b, o in units[u].get("linemap", []):
                            if a <= ln <= b:
                                c["loc"] = c["loc"] + f" [lifted closure; repository line {o + (ln - a)}]"
                                line = re.search(r"()(?:)repository line (\d+)", c["loc"])
                                line = re.search(r"repository line ()(\d+)", c["loc"])
                    if native_line and not in_harness and not re.search(r"repository line", c["loc"]) and "src/" not in c["loc"].split(" in function")[0]:
                        c["loc"] = c["loc"] + f" [native panic at {native_line[0]}:{native_line[1]}]"
                        line = re.search(r"native panic at [^:]+:()(\d+)", c["loc"])
                    r["failures"].append({
                        "obligation": f"{units[u]['file']}::{h.get('target', h['name'])}::{kind}@{(line.group(line.lastindex) if line else 0)}[{h['name']}]",
                        "kind": kind, "fn": f"{units[u]['file']}::{h.get('target', '')}", "fn_tags": h["tags"], "tags": h["tags"],
                        "message": c["desc"], "clause": c["name"], "at": {"loc": c["loc"]}, "code": c["desc"],
                        "rendered": hr["out_tail"][-1500:], "witness": pb.get("test"), "native_replay": pb, "in_template": False})
            elif hr["verdict"] == "FAILED" and not unwind_fail:
                r["undecided"].append({"reason": "kani-failed-without-parsed-check", "messages": [h["name"] + ": " + hr["out_tail"][-600:]]})
                rec["status"] = "failed-unparsed"
            elif unwind_fail:
                r["undecided"].append({"reason": "kani-unwinding-bound-too-small", "messages": [h["name"]]})
                rec["status"] = "unwind"
            elif hr["cover"] is not None and hr["cover"][0] != hr["cover"][1]:
                r["undecided"].append({"reason": "vacuous-harness (cover not satisfied)", "messages": [h["name"]]})
                rec["status"] = "vacuous"
            r["harnesses"].append(rec)
    return list(results.values())


def replay_file(path, repo, sd):
    d = json.load(open(path))
    print(json.dumps({k: d.get(k) for k in ("property", "obligation", "message", "at")}, indent=1))
    nr = d.get("native_replay") or {}
    if d.get("witness"):
        print("--- counterexample (Kani concrete playback test) ---")
        print(d["witness"])
        print("--- native replay result recorded by the check ---")
        print(json.dumps({k: nr.get(k) for k in ("reproduced", "panic", "cmd")}, indent=1))
        return 1 if nr.get("reproduced") else 2
    print("--- verifier output ---")
    print(d.get("verifier_output") or "")
    print("no-failing-input-found: the verifier (Verus) gives no model; the obligation above is the violation")
    return 1
