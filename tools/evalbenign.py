#!/usr/bin/env python3
"""Runs the checks against every behaviour-preserving refactoring in benign/ (applied to a scratch copy, never to /repo).
A check must stay quiet: exit 0 is right, exit 2 (undecided: an anchor was lost, Verus rejected the new shape, ...) is tolerated
but counted, exit 1 would be a false alarm.  usage: evalbenign.py [id ...]   Writes benign/RESULTS.json."""
import json, os, subprocess, sys, shutil, re, concurrent.futures as cf
ROOT = os.path.dirname(os.path.dirname(os.path.abspath(__file__)))
plan = json.load(open(os.path.join(ROOT, "contracts", "plan.json")))
VER = {"src/parser/frontmatter.rs": ["C05", "C17"],
       "src/parser/": ["C02", "C03", "C04", "C05", "C06", "C07", "C14", "C17"], "src/lexer/": ["C03", "C04", "C05", "C17"], "src/ast.rs": ["C03"],
       "src/scale.rs": ["C08", "C03"], "src/quantity.rs": ["C10", "C03", "C12"], "src/metadata.rs": ["C13", "C08", "C03"],
       "src/aisle.rs": ["C11", "C03"], "src/error.rs": ["C07", "C03"], "src/analysis/": ["C06", "C07", "C08"], "src/model.rs": ["C10"]}
KANI_FILES = ("src/quantity.rs", "src/metadata.rs", "src/aisle.rs", "src/error.rs", "src/model.rs", "src/analysis/event_consumer.rs",
              "src/parser/frontmatter.rs")

def run_one(cid):
    patch = os.path.join(ROOT, "benign", cid + ".diff")
    files = re.findall(r"^\+\+\+ b/(\S+)", open(patch).read(), re.M)
    props = []
    for f in files:
        for pre, ps in VER.items():
            if f.startswith(pre):
                props += [p for p in ps if p not in props]
                break
    engines = "verus,kani" if any(f in KANI_FILES for f in files) else "verus"
    scratch = f"/var/tmp/benign.{os.getpid()}.{cid}"
    shutil.rmtree(scratch, ignore_errors=True)
    subprocess.run(["rsync", "-a", "--exclude", "target", "--exclude", ".git", "/repo/", scratch + "/"], check=True)
    p = subprocess.run(["patch", "-p1", "-s", "-i", patch], cwd=scratch, capture_output=True, text=True)
    out = {}
    if p.returncode != 0:
        out = {"_": {"outcome": "patch-does-not-apply"}}
    else:
        for q in props:
            r = subprocess.run([os.path.join(ROOT, "check"), q, "--repo", scratch, "--no-evidence", "--engines", engines], capture_output=True, text=True)
            lines = [l for l in r.stdout.splitlines() if l.startswith(("VIOLATION", "FAILED-OBLIGATION", "UNDECIDED"))][:3]
            out[q] = {"outcome": {0: "quiet", 1: "FALSE-ALARM", 2: "undecided"}.get(r.returncode, "error"), "lines": lines}
    shutil.rmtree(scratch, ignore_errors=True)
    return cid, out

ids = sys.argv[1:] or sorted(f[:-5] for f in os.listdir(os.path.join(ROOT, "benign")) if f.endswith(".diff"))
res_p = os.path.join(ROOT, "benign", "RESULTS.json")
res = json.load(open(res_p)) if os.path.exists(res_p) else {}
with cf.ThreadPoolExecutor(max_workers=int(os.environ.get("SELFTEST_PAR", "4"))) as ex:
    for cid, out in ex.map(run_one, ids):
        res[cid] = out
        print(cid, {k: v["outcome"] for k, v in out.items()}, flush=True)
        for k, v in out.items():
            if v["outcome"] != "quiet":
                print("    ", k, (v.get("lines") or [""])[0][:200], flush=True)
json.dump(res, open(res_p, "w"), indent=1, sort_keys=True)
bad = [c for c, o in res.items() if any(v["outcome"] == "FALSE-ALARM" for v in o.values())]
sys.exit(1 if bad else 0)
