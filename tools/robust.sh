#!/bin/sh
# robustness loop: verify one generated unit under several crate names and solver seeds
repo=$1; unit=$2
mkdir -p /tmp/vrob
python3 /verif/tools/vgen.py $repo /verif/contracts/verus/$unit.rs /tmp/vrob/$unit.rs > /dev/null || exit 2
cd /tmp/vrob
for n in $unit aa_$unit zz9; do
  cp $unit.rs $n.rs 2>/dev/null
  for seed in 0 17 101 209; do
    ( verus $n.rs --rlimit 60 --multiple-errors 4 --triggers-mode silent --smt-option smt.random_seed=$seed --smt-option sat.random_seed=$seed 2>&1 | grep -E "verification results|^error" | grep -v aborting | tr '\n' ' '; echo " [$n seed=$seed]" ) &
  done
done
wait
