#!/usr/bin/env python3
"""Regenerates /verif/MANIFEST.json from contracts/plan.json + the claim texts below."""
import json
import os

ROOT = os.path.dirname(os.path.dirname(os.path.abspath(__file__)))
plan = json.load(open(os.path.join(ROOT, "contracts", "plan.json")))
props = {l["id"]: l for l in map(json.loads, open(os.path.join(ROOT, "properties.jsonl")))}

VERUS = "contract-based deductive verification: Verus/z3 on real functions extracted from /repo each run"
KANI = "contract-style Kani/CBMC harnesses woven into a scratch copy of the real crate"
NOTE = ("Trusted: Verus/z3/rustc, vstd's std specifications, the axioms, assumed specifications and stand-ins listed per run in "
        "evidence.coverage.trusted_base (string model A1-A9, two UTF-8 bridge facts in the lexer unit, slice::Iter::position, slice_all/any/find/rposition "
        "wrappers, the Peekable::peek model, f64 operations total, finl_unicode classifiers, SourceDiag/Located::new/Recover "
        "stand-ins, bitflags stand-ins generated from the source), the extraction "
        "tool (tools/vx + tools/vgen.py: insert-only splicing plus the logged rewrites X1-X10 and wrapcast, fidelity-checked every run). "
        "Functions listed under assumed_contracts are stubs with assumed contracts, not proofs. Kani: CBMC/CaDiCaL bit-precise, "
        "termination not proved; bounded harnesses are listed under bounded_not_counted and never counted as discharged.")

CLAIMS = {
    "C02": ("proof", "Partial. Parser-stage extension gates as postconditions of the real functions: with COMPONENT_MODIFIERS off "
            "`modifiers()` consumes nothing; with COMPONENT_ALIAS off `parse_alias` returns no alias and reports nothing and "
            "`check_alias` reports nothing; with RANGE_VALUES off (or without a `-`) a value is never read as a range; a quantity "
            "with a `%` separator is never reinterpreted by the ADVANCED_UNITS path; with a front matter and MODES off a `>>` line is "
            "never a metadata entry (steps and paragraphs never produce one); with INTERMEDIATE_PREPARATIONS off no reference target "
            "is read from the modifiers; `BlockParser::extension` is exactly the flag "
            "test. Analysis-stage gates and the composition to whole-recipe equality are not decided.", VERUS),
    "C03": ("proof", "Partial. Every panic!/assert!/debug_assert!/unwrap/expect/index/slice/arithmetic-overflow site and every loop's "
            "termination in the functions under contract (lexer, token stream, text, block parser, block splitter "
            "pull_line/next_block/next_metadata_block, section, metadata entry, text block, quantity parser, step parser incl. "
            "modifiers/ingredient/cookware/timer, parse_block, build_ast) is a discharged Verus obligation under the function's "
            "precondition, and preconditions are discharged at every call site inside the unit list; plus Kani: aisle span "
            "computation (all sub-slices), colour index, HhMm time format (bounded), front-matter line scanner (bounded). One open known finding: build_ast reaches "
            "`todo!()` on a front-matter event (D7). Entry points outside are listed in evidence.not_covered.", VERUS + " + " + KANI),
    "C04": ("proof", "Token spans tile the input on char boundaries; Span::new requires start<=end at every covered call site; every "
            "Text built by BlockParser::text has faithful, ordered fragments inside the token range and a span on char boundaries; "
            "every diagnostic label and every Located span built in the covered parser functions satisfies Span::ok (in bounds, on "
            "char boundaries); component events are located exactly at the bytes they consumed. Analysis-stage labels not decided.", VERUS),
    "C05": ("proof", "Partial. Conservation chain under contract: bytes=tokens (TokenStream::next); next_block takes a prefix of the token "
            "stream, leaves out only blank tokens, hands the rest to the block parser and the events reach the parser's own queue "
            "(the &mut borrow of the queue is followed by prophecy); a failed with_recover returns every token; BlockParser::text "
            "covers every token that can hold a letter or digit; parse_step, metadata_entry, named sections, parse_block: every "
            "such token of the block lies in the span of an event queued by the call, and the block is fully consumed (finish). "
            "Bounded (Kani, 3 bytes, not counted as proved): the front-matter line scanner tiles its input. "
            "Not decided: the rest of the front-matter split, the composition over all blocks (Iterator::next glue), blank-name sections and `>` "
            "text paragraphs.", VERUS + " + " + KANI),
    "C06": ("model_checking", "Partial, mostly bounded. Proof (Verus): every timer the parser emits has a name or a quantity. Bounded (Kani, "
            "on a RecipeCollector built the way parse_events builds it): an intermediate reference to a step / section is accepted "
            "exactly when that earlier step of the same section / earlier section exists and resolves to its index (K14); a new "
            "reference is listed back by its definition exactly once, as the index it is about to get (K16). resolve_reference "
            "(name matching), step numbering, item indices, non-emptiness and the whole-recipe statement are not decided.", VERUS + " + " + KANI + " (bounded stand-ins, labelled bounded)"),
    "C07": ("proof", "Partial. Leaf parse-stage checks as postconditions: check_modifiers / check_empty_name emit exactly one error iff "
            "the forbidden construct is present; section / metadata_entry / check_alias / check_note / comp_body emit at most one "
            "diagnostic of the documented severity; all diagnostics queued by component parsers are Error/Warning events "
            "(only_diags); every primary label satisfies Span::ok; the analysis reports the scaling-lock warning exactly when a lock "
            "is written where it has no effect (defect D9 found by this contract and fixed); unit `report`: the validity definition "
            "(PassResult::is_valid / valid_output / into_result: valid exactly when there is output and no error) and the "
            "SourceReport bookkeeping (push/warn/error assertions, has_errors, has_warnings) over its representation invariant. "
            "Bounded (Kani): intermediate references to sections and steps are accepted exactly when the target "
            "exists and resolve to it. Other analysis diagnostics and the short-circuit are not decided.", VERUS + " + " + KANI),
    "C08": ("proof", "Partial (value and component level). RecipeCollector::{value,quantity} (analysis): exactly the numeric, unlocked "
            "quantities of ingredients are marked Linear, everything else Fixed, the value kept as written. Contracts on the real linear_scale, ScalableValue::{scale,default_scale}, "
            "ScalableQuantity::{scale,default_scale} and the Scale impls of Ingredient, Cookware and Timer (names, aliases, notes, "
            "relations and modifiers untouched; NoQuantity exactly when there is no quantity): a locked value is returned verbatim with outcome Fixed for every factor; a "
            "scalable number/range is replaced end-wise by the f64 product of its value and the factor (the product is an "
            "uninterpreted float relation: the contract pins which operands are multiplied, not the rounded result), outcome Scaled; "
            "text is unchanged with outcome Error; default scaling returns the written value; the unit is kept; scale_to_servings "
            "scales by one f64 division of the target and the first declared servings (over an assumed `scale`); Kani (bounded): "
            "the declared servings are kept in order. Recipe-level iteration and fitting are not decided.", VERUS + " + " + KANI),
    "C10": ("proof", "Partial (value level). Contracts on the real Value::try_add and GroupedValue::{add,merge,..}: text never takes "
            "part in a sum and is kept verbatim in insertion order; numbers and ranges are folded end-wise into the single numeric "
            "slot (sum as an uninterpreted f64 relation over the right operands); the `expect` in add cannot fire; the "
            "representation invariant (at most one numeric value, first) is preserved; Quantity::compatible_unit: two quantities are "
            "added in the unit of the FIRST one, never across physical quantities, never one with and one without unit (the converter "
            "lookup is an assumed pure function). Bounded (Kani): all_quantities lists every "
            "present quantity of a definition and its two references exactly once. GroupedQuantity, ingredient lists and "
            "aisle categorisation are not decided.", VERUS + " + " + KANI),
    "C11": ("proof", "Partial. The span computation of aisle::parse (calc_span closure, lifted mechanically) never asserts and returns "
            "exactly the sub-slice's offsets for every sub-slice of the input (Kani, loop-free, pointer-level). Duplicate detection, "
            "writer round trip and lookup are not decided (std string pattern APIs are out of both tools' reach).", KANI),
    "C12": ("proof", "Every clause of the statement about the returned number, for all f64 values, f32 accuracies in [0,1], max_den<=64 "
            "and all whole limits (loop-free harnesses over the full domain = complete): declines, denominators, numerator range, "
            "whole limit, integer shortcut, try_approx; error bound and exact value in the thorough tier. The lookup table is the "
            "one the real FractionLookupTable::new() returns when executed natively in the same run. Printed form not decided.", KANI),
    "C13": ("model_checking", "Partial, bounded. parse_common_time_format on all strings of at most 10 bytes over {0-9,h,m,+,x} "
            "(quick) / all ASCII (thorough): no overflow, no panic; thorough adds the value law (documented HhMm forms give exactly "
            "60h+m, too-large values are refused); hard_coded_time_units accepts exactly the documented spellings (8 bytes); "
            "RecipeTime::total never wraps (complete; defect D10 found and fixed); servings lists of three numbers are accepted "
            "exactly when distinct and in range, and returned in order (bounded). Other accessors (tags, author, locale, "
            "number-unit strings) not decided.", KANI + " (bounded stand-in, labelled bounded)"),
    "C14": ("proof", "Partial: the `>>` mechanism only. Contracts on the real next_block (full parser) and next_metadata_block (metadata-only "
            "scanner) plus two theorems over them, for one and the same remaining token stream: the first `>>` line (a `>>` at a line "
            "start, up to the end of its line) is either the block the full parser takes next or lies wholly after what that call "
            "consumed — never skipped as blank, never swallowed by a step or paragraph — and when it is that block both parsers hand "
            "the same token slice, with the same input and extensions, to the same function metadata_entry. Not decided: the "
            "iteration glue, the other direction of the old-style filter, YAML front matter, the analysis side.", VERUS),
    "C17": ("proof", "Partial. The local mechanisms: is_empty_token is exactly {whitespace, comments, newline}; ws_comments skips only "
            "such tokens; comments never enter text fragments (fragments are faithful slices outside comment tokens); a block "
            "comment ends at the first `-]`; the block splitter drops only blank tokens, trims trailing newlines, and a line "
            "starting with `>>` or `=` is always a block of its own; bounded (Kani, 3 bytes): the front-matter line scanner "
            "treats LF and CRLF alike. The metamorphic relation itself (two parses compared) is not "
            "decided.", VERUS + " + " + KANI),
}

NA_REASON = {
    "C01": "needs a functional specification of the whole language plus a printer that is not in the repository; the local facts it rests on are claimed under C04/C05/C02 (DESIGN.md §6)",
    "C09": "floating-point tolerance claims over HashMap/EnumMap/Arc data; Verus has no float theory, CBMC times out (DESIGN.md §6)",
    "C15": "behaviour lives in serde derive output and serde_json; not contractable here (DESIGN.md §6)",
    "C16": "ConverterBuilder is HashMap/EnumMap/Arc/closure code; both tools fail on it (DESIGN.md §6)",
    "C18": "quantified over call histories and thread schedules; Kani has no threads, Verus would need its own permission types (DESIGN.md §6)",
    "C19": "uniffi + HashMap bindings crate; not brought under contract (DESIGN.md §6)",
}

checks = []
for pid in sorted(plan["properties"]):
    cat, txt, tech = CLAIMS[pid]
    cat = plan["properties"][pid].get("level", cat)
    checks.append({
        "property_id": pid,
        "quick_cmd": f"./check {pid} --tier quick",
        "thorough_cmd": f"./check {pid} --tier thorough",
        "evidence_file": f"/verif/evidence/{pid}.json",
        "replay_cmd_template": "./check --replay {path}",
        "engine": "verus+kani",
        "level_claimed": {"category": cat, "text": txt, "design_ref": "DESIGN.md §6 " + pid},
        "level_note": NOTE,
        "technique": tech,
    })
na = [{"property_id": pid, "reason": NA_REASON[pid]} for pid in sorted(props) if pid not in plan["properties"]]
m = {
    "version": 1,
    "setup_cmd": "cd /verif/tools/vx && CARGO_NET_OFFLINE=true cargo build --release --offline",
    "hooks": {
        "guard": "none in /repo: the only cfgs used (kani, verif_replay) exist in the woven scratch copy made by ./check",
        "enable": "./check copies /repo's working tree to a scratch dir, extracts the functions under contract for Verus and weaves harness modules for Kani there; /repo needs no hook commits",
        "baseline_off_cmd": "cd /repo && cargo test --workspace --no-fail-fast --offline",
        "source_commits": [],
        "add_only": True,
    },
    "engines": [
        {"name": "verus", "path": "/verif/check", "serves_properties": [p for p in sorted(plan["properties"]) if plan["properties"][p].get("verus")],
         "kind_free_text": "Verus 0.2026.09.13 on functions extracted mechanically from /repo (tools/vx + tools/vgen.py + contracts/verus/*.rs)"},
        {"name": "kani", "path": "/verif/check", "serves_properties": [p for p in sorted(plan["properties"]) if plan["properties"][p].get("kani_quick") or plan["properties"][p].get("kani_thorough")],
         "kind_free_text": "Kani 0.68 / CBMC 6.11 harnesses (contracts/kani/*.krs) woven into a scratch copy of the real crate; counterexamples replayed natively by concrete playback"},
    ],
    "checks": checks,
    "not_applicable": na,
    "notes": "See DESIGN.md (Implementation status, §5a, §9, §10). known_findings.json lists the six genuine defects found and fixed (fix: commits in /repo) and the one open finding (build_ast todo!()). seeded/, mutants/ and benign/ hold the changes the checks were tried against; exit 2 + UNDECIDED means the check could not judge (tool limit, lost proof anchor), never that the property is violated.",
}
json.dump(m, open(os.path.join(ROOT, "MANIFEST.json"), "w"), indent=1)
# structural fallback positions of the text anchors, recorded on the current (pristine) tree
import subprocess
subprocess.run(["python3", os.path.join(ROOT, "tools", "vgen.py"), "--record-anchors", "/repo"] +
               [os.path.join(ROOT, u["template"]) for u in plan["verus_units"].values()], check=True, stdout=subprocess.DEVNULL)
print("claimed:", [c["property_id"] for c in checks])
