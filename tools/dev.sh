#!/bin/sh
# dev helper: expand a template against a tree and run verus; usage: dev.sh <repo> <unit> [verus args]
repo=$1; unit=$2; shift 2
out=/tmp/vdev/gen_$unit.rs
mkdir -p /tmp/vdev
python3 /verif/tools/vgen.py $repo /verif/contracts/verus/$unit.rs $out > /tmp/vdev/gen_$unit.log || { cat /tmp/vdev/gen_$unit.log | head -5; exit 2; }
cd /tmp/vdev && verus gen_$unit.rs --triggers-mode silent "$@" 2>&1 | grep -v "^ *|$" | grep -v "rust_verify/src/verifier.rs"
