#!/usr/bin/env python3
"""selftest — applies every hand-written mutant (mutants/*.diff) and every seeded change (seeded/*/patch.diff) to a scratch copy of
/repo, runs the owning check against it and compares with the recorded expectation.  usage: selftest.py [--mutants|--seeds] [id ...]
Writes mutants/RESULTS.json.  Exit 1 if a change that is expected to be caught is not."""
import json, os, subprocess, sys, shutil, concurrent.futures as cf
ROOT = os.path.dirname(os.path.dirname(os.path.abspath(__file__)))
plan = json.load(open(os.path.join(ROOT, "contracts", "plan.json")))

def run_one(kind, cid, patch, prop):
    scratch = f"/var/tmp/selftest.{os.getpid()}.{cid}"
    shutil.rmtree(scratch, ignore_errors=True)
    subprocess.run(["rsync", "-a", "--exclude", "target", "--exclude", ".git", "/repo/", scratch + "/"], check=True)
    p = subprocess.run(["patch", "-p1", "-s", "-i", patch], cwd=scratch, capture_output=True, text=True)
    if p.returncode != 0:
        shutil.rmtree(scratch, ignore_errors=True)
        return cid, {"outcome": "patch-does-not-apply"}
    env = dict(os.environ); env["VERIF_SCRATCH"] = "/var/tmp"
    r = subprocess.run([os.path.join(ROOT, "check"), prop, "--repo", scratch, "--no-evidence"], capture_output=True, text=True, env=env)
    shutil.rmtree(scratch, ignore_errors=True)
    lines = [l for l in r.stdout.splitlines() if l.startswith(("FAILED-OBLIGATION", "UNDECIDED"))][:3]
    return cid, {"property": prop, "outcome": {0: "missed", 1: "caught", 2: "undecided"}.get(r.returncode, "error"), "lines": lines}

args = [a for a in sys.argv[1:] if not a.startswith("--")]
jobs = []
if "--seeds" not in sys.argv:
    for f in sorted(os.listdir(os.path.join(ROOT, "mutants"))):
        if f.endswith(".diff"):
            cid = f[:-5]
            if args and cid not in args: continue
            meta = json.load(open(os.path.join(ROOT, "mutants", cid + ".json")))
            jobs.append(("mutant", cid, os.path.join(ROOT, "mutants", f), meta["property"]))
if "--mutants" not in sys.argv:
    for cid in sorted(os.listdir(os.path.join(ROOT, "seeded"))):
        if args and cid not in args: continue
        if cid[:3] in plan["properties"]:
            jobs.append(("seed", cid, os.path.join(ROOT, "seeded", cid, "patch.diff"), cid[:3]))
res = {}
with cf.ThreadPoolExecutor(max_workers=int(os.environ.get("SELFTEST_PAR", "3"))) as ex:
    for cid, r in ex.map(lambda j: run_one(*j), jobs):
        res[cid] = r
        print(cid, r["outcome"], (r.get("lines") or [""])[0][:120], flush=True)
out = os.path.join(ROOT, "mutants", "RESULTS.json")
old = json.load(open(out)) if os.path.exists(out) else {}
old.update(res)
json.dump(old, open(out, "w"), indent=1, sort_keys=True)
exp_p = os.path.join(ROOT, "mutants", "EXPECTED.json")
bad = []
if os.path.exists(exp_p):
    exp = json.load(open(exp_p))
    bad = [c for c, r in res.items() if exp.get(c) == "caught" and r["outcome"] != "caught"]
if bad:
    print("REGRESSION: no longer caught:", bad)
    sys.exit(1)
