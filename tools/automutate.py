#!/usr/bin/env python3
"""automutate — first-order mutants of the functions under contract (one token-level change each), judged by the Verus units.
Purpose: find contracts that are too weak (a surviving mutant that changes behaviour).  Not part of any registered check.
usage: automutate.py <unit> [--max N] [--fn substr]    writes mutants/auto_<unit>.json"""
import importlib.machinery, importlib.util, json, os, re, shutil, subprocess, sys, random, concurrent.futures as cf
ROOT = os.path.dirname(os.path.dirname(os.path.abspath(__file__)))
sys.path.insert(0, os.path.join(ROOT, "tools"))
loader = importlib.machinery.SourceFileLoader("check_mod", os.path.join(ROOT, "check"))
spec = importlib.util.spec_from_loader("check_mod", loader); chk = importlib.util.module_from_spec(spec); loader.exec_module(chk)
import vgen
plan = json.load(open(os.path.join(ROOT, "contracts", "plan.json")))
unit = sys.argv[1]
maxn = int(sys.argv[sys.argv.index("--max") + 1]) if "--max" in sys.argv else 10**9
fnsel = sys.argv[sys.argv.index("--fn") + 1] if "--fn" in sys.argv else ""
cfg = plan["verus_units"][unit]
tmpl = open(os.path.join(ROOT, cfg["template"])).read()
targets = [(m.group(1), m.group(2).replace("~", " ")) for m in re.finditer(r"/\*@ fn (\S+) (\S+)\n", tmpl)]   # non-stub (stub has a flag on the line)
OPS = [(r"==", "!="), (r"!=", "=="), (r"<=", "<"), (r">=", ">"), (r"(?<![<>=!-])<(?![<=])", "<="), (r"(?<![<>=!-])>(?![>=])", ">="),
       (r"&&", "||"), (r"\|\|", "&&"), (r"\+ 1\b", "+ 0"), (r"- 1\b", "- 0"), (r"\btrue\b", "false"), (r"\bfalse\b", "true"),
       (r"\.is_some\(\)", ".is_none()"), (r"\.is_none\(\)", ".is_some()"), (r"\bstart\b", "end"), (r"\+=", "-="), (r"!(?=[a-z_(])", "")]
muts = []
for rel, path in targets:
    if fnsel and fnsel not in path: continue
    ix = vgen.index("/repo", rel)
    try: it = vgen.find_item(ix, "fn", path, rel)
    except Exception: continue
    b0, b1 = it["body"]; data = ix["bytes"]
    body = data[b0:b1].decode()
    for pat, rep in OPS:
        for m in re.finditer(pat, body):
            ls = body.rfind("\n", 0, m.start()) + 1
            line = body[ls:body.find("\n", m.start())]
            if line.strip().startswith("//") or "assert" in line or "->" in line[max(0, m.start() - ls - 2):m.end() - ls + 2] or "=>" in line[max(0, m.start() - ls - 2):m.end() - ls + 2]:
                continue
            muts.append((rel, path, b0 + m.start(), b0 + m.end(), rep, line.strip()[:100]))
random.Random(7).shuffle(muts)
muts = muts[:maxn]
KNOWN = chk.load_known()
print(len(muts), "mutants")

def run(i):
    rel, path, a, b, rep, line = muts[i]
    sd = f"/var/tmp/automut.{os.getpid()}.{i}"
    shutil.rmtree(sd, ignore_errors=True)
    os.makedirs(sd, exist_ok=True)
    subprocess.run(["rsync", "-a", "--exclude", "target", "--exclude", ".git", "/repo/", sd + "/repo/"], check=True)
    p = os.path.join(sd, "repo", rel)
    data = open(p, "rb").read()
    open(p, "wb").write(data[:a] + rep.encode() + data[b:])
    os.makedirs(sd + "/gen", exist_ok=True)
    vgen._index_cache.pop((sd + "/repo", rel), None)
    r = chk.run_verus_unit(unit, cfg, sd + "/repo", sd + "/gen", "quick", 1)
    verdict = "survived"
    why = ""
    if any("fn_tags" not in u for u in r["undecided"]):
        verdict, why = "invalid", r["undecided"][0]["reason"]
    else:
        for fl in r["failures"]:
            for prop in set(fl.get("fn_tags", [])) | set(fl.get("tags", [])):
                if chk.known_match(prop, fl, KNOWN):
                    continue
                if chk.violation_for(prop, fl) == "violation":
                    verdict, why = "caught", fl["obligation"]
        fails = [fl for fl in r["failures"] if not any(chk.known_match(p_, fl, KNOWN) for p_ in set(fl.get("fn_tags", [])) | set(fl.get("tags", [])))]
        if verdict == "survived" and (r["undecided"] or fails):
            msg = " ".join((r["undecided"] or [{}])[0].get("messages", []))
            if "no longer compiles" in msg:
                verdict, why = "invalid", "mutant does not compile"
            else:
                verdict, why = "undecided", (r["undecided"] or [{}])[0].get("reason", "") or fails[0]["obligation"]
    shutil.rmtree(sd, ignore_errors=True)
    return i, verdict, why

out = []
with cf.ThreadPoolExecutor(max_workers=int(os.environ.get("SELFTEST_PAR", "5"))) as ex:
    for i, v, why in ex.map(run, range(len(muts))):
        rel, path, a, b, rep, line = muts[i]
        out.append({"file": rel, "fn": path, "line": line, "replacement": rep, "verdict": v, "why": why})
        print(v, path, "|", line, "=>", rep, "|", why[:80], flush=True)
json.dump(out, open(os.path.join(ROOT, "mutants", f"auto_{unit}.json"), "w"), indent=1)
from collections import Counter
print(Counter(o["verdict"] for o in out))
