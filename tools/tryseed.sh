#!/bin/sh
# usage: tryseed.sh <patch.diff> <Cxx> [more props]  — applies the patch to a scratch copy of /repo and runs the checks against it
patch=$1; shift
d=/var/tmp/seedtry.$$
rsync -a --exclude target --exclude .git /repo/ $d/
( cd $d && patch -p1 -s < $patch ) || { echo "patch failed"; rm -rf $d; exit 3; }
for p in "$@"; do /verif/check $p --repo $d --no-evidence 2>&1 | tail -4; done
rm -rf $d
