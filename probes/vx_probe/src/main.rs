use syn::spanned::Spanned;
use syn::visit::Visit;
struct V<'a> { src: &'a str, want_impl: &'a str, want_fn: &'a str, cur_impl: Option<String>, loops: usize }
impl<'ast, 'a> Visit<'ast> for V<'a> {
    fn visit_item_impl(&mut self, i: &'ast syn::ItemImpl) {
        let name = if let syn::Type::Path(p) = &*i.self_ty { p.path.segments.last().map(|s| s.ident.to_string()) } else { None };
        let old = self.cur_impl.take();
        self.cur_impl = name;
        syn::visit::visit_item_impl(self, i);
        self.cur_impl = old;
    }
    fn visit_impl_item_fn(&mut self, f: &'ast syn::ImplItemFn) {
        if self.cur_impl.as_deref() == Some(self.want_impl) && f.sig.ident == self.want_fn {
            let r = f.span().byte_range();
            let sig_end = f.sig.span().byte_range().end;
            let body = f.block.span().byte_range();
            println!("ITEM bytes {}..{} sig_end {} body {}..{}", r.start, r.end, sig_end, body.start, body.end);
            println!("--- signature text:\n{}", &self.src[r.start..sig_end]);
            struct L<'s>(&'s str, usize);
            impl<'ast, 's> Visit<'ast> for L<'s> {
                fn visit_expr_for_loop(&mut self, e: &'ast syn::ExprForLoop) { let b = e.body.span().byte_range(); let h = e.span().byte_range(); println!("--- loop #{} header: {}", self.1, &self.0[h.start..b.start]); self.1 += 1; syn::visit::visit_expr_for_loop(self, e); }
                fn visit_expr_while(&mut self, e: &'ast syn::ExprWhile) { let b = e.body.span().byte_range(); let h = e.span().byte_range(); println!("--- loop #{} header: {}", self.1, &self.0[h.start..b.start]); self.1 += 1; syn::visit::visit_expr_while(self, e); }
            }
            let mut l = L(self.src, 0); l.visit_block(&f.block); self.loops = l.1;
        }
    }
}
fn main() {
    let a: Vec<String> = std::env::args().collect();
    let src = std::fs::read_to_string(&a[1]).unwrap();
    let file = syn::parse_file(&src).unwrap();
    let mut v = V { src: &src, want_impl: &a[2], want_fn: &a[3], cur_impl: None, loops: 0 };
    v.visit_file(&file);
    println!("loops: {}", v.loops);
}
