// feasibility probe: text appended to the real source file of a scratch copy of /repo
#[cfg(kani)]
fn calc_span_lifted(input: &str, s: &str) -> Span {
        let s_ptr = s.as_ptr();
        let input_ptr = input.as_ptr();
        // SAFETY: only used when `s` is an slice of the original input str
        assert!(s_ptr >= input_ptr);
        assert!(s_ptr <= unsafe { input_ptr.add(input.len() - 1) });
        let offset = unsafe { s_ptr.offset_from(input_ptr) };
        let offset = offset as usize;
        Span::new(offset, offset + s.len())
}

#[cfg(kani)]
mod verif_kani {
    use super::*;
    static BUF: &str = "aaaaaaaaaaaaaaaa";
    #[kani::proof]
    fn calc_span_contract() {
        let n: usize = kani::any();
        kani::assume(n >= 1 && n <= 16);
        let input = &BUF[..n];
        let a: usize = kani::any();
        let b: usize = kani::any();
        kani::assume(a <= b && b <= n);
        let s = &input[a..b];
        let sp = calc_span_lifted(input, s);
        assert!(sp.start() == a && sp.end() == b);
    }
}
