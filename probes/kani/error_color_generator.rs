// feasibility probe: text appended to the real source file of a scratch copy of /repo
#[cfg(kani)]
mod verif_kani {
    use super::*;
    #[kani::proof]
    fn color_generator_in_bounds() {
        let i: usize = kani::any();
        kani::assume(i < ColorGenerator::COLORS.len());
        let mut cg = ColorGenerator(i);
        let _ = cg.next();
        assert!(cg.0 < ColorGenerator::COLORS.len());
    }
}
