// feasibility probe: text appended to the real source file of a scratch copy of /repo
#[cfg(kani)]
mod verif_kani {
    use super::*;
    #[kani::requires(start <= end)]
    #[kani::ensures(|r: &Span| r.start == start && r.end == end)]
    fn span_new_c(start: usize, end: usize) -> Span { Span::new(start, end) }

    #[kani::proof_for_contract(span_new_c)]
    fn check_span_new() { span_new_c(kani::any(), kani::any()); }

    #[kani::proof]
    #[kani::stub_verified(span_new_c)]
    fn caller_uses_contract() {
        let a: usize = kani::any();
        let b: usize = kani::any();
        kani::assume(a <= b);
        let s = span_new_c(a, b);
        assert!(s.len() == b - a);
    }
}
