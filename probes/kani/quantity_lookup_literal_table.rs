// feasibility probe: text appended to the real source file of a scratch copy of /repo
#[cfg(kani)]
mod verif_kani {
    use super::*;

    // table as computed by the real FractionLookupTable::new() (to be generated natively each run)
    fn table() -> FractionLookupTable {
        FractionLookupTable(vec![
            (625,(1,16)),(1000,(1,10)),(1250,(1,8)),(1875,(3,16)),(2000,(2,10)),(2500,(1,4)),(3000,(3,10)),(3125,(5,16)),(3333,(1,3)),(3750,(3,8)),
            (4000,(4,10)),(4375,(7,16)),(5000,(1,2)),(5625,(9,16)),(6000,(6,10)),(6250,(5,8)),(6666,(2,3)),(6875,(11,16)),(7000,(7,10)),(7500,(3,4)),
            (8000,(8,10)),(8125,(13,16)),(8750,(7,8)),(9000,(9,10)),(9375,(15,16)),
        ])
    }

    #[kani::proof]
    #[kani::unwind(40)]
    fn new_approx_contract() {
        let value: f64 = kani::any();
        let accuracy: f32 = kani::any();
        kani::assume(accuracy >= 0.0 && accuracy <= 1.0);
        let max_den: u8 = kani::any();
        kani::assume(max_den <= 64);
        let max_whole: u32 = kani::any();
        match Number::new_approx(value, accuracy, max_den, max_whole) {
            None => {}
            Some(Number::Regular(v)) => {
                assert!(v == value);
                assert!(value > 0.0 && value.is_finite());
                assert!(value.fract() < 1e-10);
                assert!(value.trunc() as u32 <= max_whole);
            }
            Some(Number::Fraction { whole, num, den, err }) => {
                assert!(value > 0.0 && value.is_finite());
                assert!(whole <= max_whole);
                assert!(err.abs() <= accuracy as f64 * value);
                if num == 0 { assert!(den == 1 && whole > 0); }
                else {
                    assert!(num < den && den <= max_den as u32);
                    assert!(den == 2 || den == 3 || den == 4 || den == 8 || den == 10 || den == 16);
                }
            }
        }
    }

    #[kani::proof]
    #[kani::unwind(27)]
    fn lookup_contract() {
        let t = table();
        let val: f64 = kani::any();
        kani::assume(val >= 0.0 && val < 1.0);
        let max_den: u8 = kani::any();
        kani::assume(max_den <= 64);
        if let Some((n, d)) = t.lookup(val, max_den) {
            assert!(d <= max_den);
            assert!(n >= 1 && n < d);
            assert!(d == 2 || d == 3 || d == 4 || d == 8 || d == 10 || d == 16);
        }
        std::mem::forget(t);
    }
}
