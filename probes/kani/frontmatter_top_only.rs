// feasibility probe: text appended to the real source file of a scratch copy of /repo
#[cfg(kani)]
mod verif_kani {
    use super::*;
    const N: usize = 10;
    #[kani::proof]
    #[kani::unwind(12)]
    fn frontmatter_starts_at_top() {
        let mut bytes = [b'a'; N];
        let mut i = 0;
        while i < N {
            let c: u8 = kani::any();
            kani::assume(c < 3);
            bytes[i] = if c == 0 { b'-' } else if c == 1 { b'\n' } else { b'a' };
            i += 1;
        }
        let s = unsafe { std::str::from_utf8_unchecked(&bytes) };
        if let Some(fm) = parse_frontmatter(s) {
            // the first fence is the first line: nothing precedes it
            assert!(fm.yaml_offset == 4);
            assert!(bytes[0] == b'-' && bytes[1] == b'-' && bytes[2] == b'-' && bytes[3] == b'\n');
        }
    }
}
