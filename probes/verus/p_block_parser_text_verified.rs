use vstd::prelude::*;
use vstd::string::StringSliceAdditionalSpecFns;

macro_rules! T {
    [newline] => { crate::TokenKind::Newline };
    [line comment] => { crate::TokenKind::LineComment };
    [block comment] => { crate::TokenKind::BlockComment };
    [escaped] => { crate::TokenKind::Escaped };
}
// PRELUDE: exec debug check re-expressed as a static obligation
macro_rules! debug_assert_adjacent {
    ($s:expr) => { crate::check_adjacent($s) };
}

// PRELUDE: comparison assertion macros shadowed by their truth condition (message formatting dropped)
macro_rules! assert_eq { ($a:expr, $b:expr $(, $($rest:tt)*)?) => { assert!($a == $b) }; }
macro_rules! debug_assert_eq { ($a:expr, $b:expr $(, $($rest:tt)*)?) => { debug_assert!($a == $b) }; }

verus! {

// ---------- src/span.rs ----------
#[derive(Clone, Copy, PartialEq, Eq)]
pub struct Span {
    start: usize,
    end: usize,
}

impl Span {
    pub closed spec fn s(&self) -> int { self.start as int }
    pub closed spec fn e(&self) -> int { self.end as int }

    pub(crate) fn new(start: usize, end: usize) -> (r: Self)
        requires start <= end
        ensures r.s() == start, r.e() == end
    {
        Self { start, end }
    }

    pub(crate) fn pos(pos: usize) -> (r: Self)
        ensures r.s() == pos, r.e() == pos
    {
        Self {
            start: pos,
            end: pos,
        }
    }

    pub fn start(&self) -> (r: usize) ensures r == self.s() {
        self.start
    }

    pub fn end(&self) -> (r: usize) ensures r == self.e() {
        self.end
    }

    pub fn range(&self) -> (r: core::ops::Range<usize>) ensures r.start == self.s(), r.end == self.e() {
        self.start..self.end
    }

    pub fn len(&self) -> (r: usize) requires self.s() <= self.e() ensures r == self.e() - self.s() {
        self.end - self.start
    }
}

// ---------- src/lexer/mod.rs ----------
#[derive(Debug, Clone, Copy, PartialEq, Eq)]
pub enum TokenKind { Word, Escaped, Whitespace, Newline, LineComment, BlockComment, Eof }

// ---------- src/parser/token_stream.rs ----------
#[derive(Debug, Clone, Copy, PartialEq, Eq)]
pub struct Token {
    pub kind: TokenKind,
    pub span: Span,
}

impl Token {
    pub fn len(&self) -> (r: usize) requires self.span.s() <= self.span.e() ensures r == self.span.e() - self.span.s() {
        self.span.len()
    }
}

// ---------- trusted string model (PRELUDE) ----------
pub open spec fn blen(s: &str) -> int { s.spec_bytes().len() as int }
pub open spec fn bnd(s: &str, i: int) -> bool { 0 <= i <= blen(s) && vstd::utf8::is_char_boundary(s.spec_bytes(), i) }

#[verifier::external_body]
pub fn str_blen(s: &str) -> (r: usize) ensures r == blen(s) { s.len() }

#[verifier::external_body]
pub fn str_slice<'a>(s: &'a str, a: usize, b: usize) -> (r: &'a str)
    requires a <= b, bnd(s, a as int), bnd(s, b as int)
    ensures blen(r) == b - a, r.spec_bytes() == s.spec_bytes().subrange(a as int, b as int)
{ &s[a..b] }

// ---------- src/text.rs ----------
#[derive(Clone, Copy)]
pub struct TextFragment<'a> {
    text: &'a str,
    offset: usize,
    kind: TextFragmentKind,
}

#[derive(Clone, Copy, PartialEq, Eq)]
pub enum TextFragmentKind {
    Text,
    SoftBreak,
}

impl<'a> TextFragment<'a> {
    pub closed spec fn s(&self) -> int { self.offset as int }
    pub closed spec fn e(&self) -> int { self.offset + blen(self.text) }
    pub closed spec fn txt(&self) -> &'a str { self.text }

    pub(crate) fn new(text: &'a str, offset: usize) -> (r: Self)
        ensures r.s() == offset, r.txt() == text
    {
        Self {
            text,
            offset,
            kind: TextFragmentKind::Text,
        }
    }

    pub(crate) fn soft_break(text: &'a str, offset: usize) -> (r: Self)
        ensures r.s() == offset, r.txt() == text
    {
        Self {
            text,
            offset,
            kind: TextFragmentKind::SoftBreak,
        }
    }
}


impl<'a> TextFragment<'a> {
    /// Get the span of the original input of the fragment
    pub fn span(&self) -> (r: Span)
        requires self.e() <= usize::MAX
        ensures r.s() == self.s(), r.e() == self.e()
    {
        Span::new(self.start(), self.end())
    }

    /// Start offset of the fragment
    pub fn start(&self) -> (r: usize) ensures r == self.s() {
        self.offset
    }

    /// End offset (not included) of the fragment
    pub fn end(&self) -> (r: usize)
        requires self.e() <= usize::MAX
        ensures r == self.e()
    {
        self.offset + str_blen(self.text)   // R2: was self.text.len()
    }
}

pub enum TextData<'a> {
    Empty { offset: usize },
    Single { fragment: TextFragment<'a> },
    Fragmented { fragments: Vec<TextFragment<'a>> },
}

impl<'a> TextData<'a> {
    pub open spec fn frags(&self) -> Seq<TextFragment<'a>> {
        match self {
            TextData::Empty { .. } => seq![],
            TextData::Single { fragment } => seq![*fragment],
            TextData::Fragmented { fragments } => fragments@,
        }
    }
    pub open spec fn wf(&self) -> bool {
        &&& (self is Fragmented ==> self.frags().len() >= 2)
        &&& forall|i: int| 0 <= i < self.frags().len() ==> (#[trigger] self.frags()[i]).e() <= usize::MAX && self.frags()[i].s() < self.frags()[i].e()
        &&& forall|i: int, j: int| 0 <= i < j < self.frags().len() ==> (#[trigger] self.frags()[i]).e() <= (#[trigger] self.frags()[j]).s()
    }
    pub open spec fn end_spec(&self) -> int {
        match self {
            TextData::Empty { offset } => *offset as int,
            _ => self.frags().last().e(),
        }
    }

    fn push(&mut self, fragment: TextFragment<'a>)
        requires old(self).wf(), old(self).end_spec() <= fragment.s(), fragment.s() < fragment.e() <= usize::MAX
        ensures final(self).wf(), final(self).frags() == old(self).frags().push(fragment)
    {
        match self {
            TextData::Empty { .. } => *self = Self::Single { fragment },
            TextData::Single { fragment: current } => {
                *self = Self::Fragmented {
                    fragments: vec![*current, fragment],
                }
            }
            TextData::Fragmented { fragments } => fragments.push(fragment),
        }
    }

    fn span(&self) -> (r: Span)
        requires self.wf()
        ensures r.e() == self.end_spec(), r.s() <= r.e()
    {
        match self {
            TextData::Empty { offset } => Span::pos(*offset),
            TextData::Single { fragment } => { proof { assert(self.frags()[0] == *fragment); } fragment.span() },
            TextData::Fragmented { fragments } => {
                let start = fragments.first().unwrap().span().start();
                let end = fragments.last().unwrap().span().end();
                Span::new(start, end)
            }
        }
    }
}

pub struct Text<'a> {
    data: TextData<'a>,
}

impl<'a> Text<'a> {
    pub closed spec fn wf(&self) -> bool { self.data.wf() }
    pub closed spec fn frags(&self) -> Seq<TextFragment<'a>> { self.data.frags() }
    pub closed spec fn end_spec(&self) -> int { self.data.end_spec() }

    pub(crate) fn empty(offset: usize) -> (r: Self)
        ensures r.wf(), r.frags().len() == 0, r.end_spec() == offset
    {
        Self {
            data: TextData::Empty { offset },
        }
    }

    pub(crate) fn append_fragment(&mut self, fragment: TextFragment<'a>)
        requires old(self).wf(), old(self).end_spec() <= fragment.s(), fragment.e() <= usize::MAX
        ensures final(self).wf(),
            blen(fragment.txt()) == 0 ==> final(self).frags() == old(self).frags() && final(self).end_spec() == old(self).end_spec(),
            blen(fragment.txt()) > 0 ==> final(self).frags() == old(self).frags().push(fragment) && final(self).end_spec() == fragment.e(),
    {
        assert!(self.span().end() <= fragment.offset);
        if fragment.text.is_empty() {
            return;
        }
        self.data.push(fragment);
    }

    pub(crate) fn append_str(&mut self, s: &'a str, offset: usize)
        requires old(self).wf(), old(self).end_spec() <= offset, offset + blen(s) <= usize::MAX
        ensures final(self).wf(),
            blen(s) == 0 ==> final(self).frags() == old(self).frags() && final(self).end_spec() == old(self).end_spec(),
            blen(s) > 0 ==> final(self).frags().len() == old(self).frags().len() + 1 && final(self).end_spec() == offset + blen(s)
                && final(self).frags().last().txt() == s && final(self).frags().last().s() == offset
                && final(self).frags().drop_last() == old(self).frags(),
    {
        self.append_fragment(TextFragment::new(s, offset))
    }

    pub fn span(&self) -> (r: Span)
        requires self.wf()
        ensures r.e() == self.end_spec(), r.s() <= r.e()
    {
        self.data.span()
    }
}


// ---------- src/parser/block_parser.rs ----------
#[verifier::external_body]
pub fn check_adjacent(ts: &[Token]) requires adjacent(ts@) {}

pub open spec fn adjacent(ts: Seq<Token>) -> bool {
    forall|i: int, j: int| 0 <= i && j == i + 1 && j < ts.len() ==> (#[trigger] ts[i]).span.e() == (#[trigger] ts[j]).span.s()
}
/// lexer contract carried by every token slice handed to a BlockParser
pub open spec fn toks_ok(ts: Seq<Token>, input: &str) -> bool {
    &&& adjacent(ts)
    &&& forall|i: int| 0 <= i < ts.len() ==> (#[trigger] ts[i]).span.s() < ts[i].span.e() && bnd(input, ts[i].span.s()) && bnd(input, ts[i].span.e())
    &&& forall|i: int| 0 <= i < ts.len() && (#[trigger] ts[i]).kind == TokenKind::Escaped ==> bnd(input, ts[i].span.s() + 1) && ts[i].span.s() + 1 <= ts[i].span.e()
}


pub proof fn lemma_mono(ts: Seq<Token>, input: &str, i: int, j: int)
    requires toks_ok(ts, input), 0 <= i <= j < ts.len()
    ensures ts[i].span.s() <= ts[j].span.s(), ts[i].span.e() <= ts[j].span.e()
    decreases j - i
{
    if i < j {
        lemma_mono(ts, input, i, j - 1);
        assert(ts[j - 1].span.e() == ts[j].span.s());
    }
}

pub open spec fn cur(ts: Seq<Token>, index: int) -> int { if index == 0 { ts[0].span.s() } else { ts[index - 1].span.e() } }

pub struct BlockParser<'t, 'i> {
    tokens: &'t [Token],
    pub(crate) current: usize,
    pub(crate) input: &'i str,
}

impl<'t, 'i> BlockParser<'t, 'i> {
    pub(crate) fn text(&self, offset: usize, tokens: &[Token]) -> (t: Text<'i>)
        requires toks_ok(tokens@, self.input), tokens@.len() > 0 ==> offset == tokens@[0].span.s(),
        ensures t.wf(),
            tokens@.len() == 0 ==> t.frags().len() == 0,
            // every fragment lies inside the token range, is a faithful input slice
            forall|k: int| 0 <= k < t.frags().len() ==> {
                let f = #[trigger] t.frags()[k];
                &&& tokens@[0].span.s() <= f.s() && f.e() <= tokens@.last().span.e()
                &&& bnd(self.input, f.s()) && bnd(self.input, f.e())
                &&& f.txt().spec_bytes() == self.input.spec_bytes().subrange(f.s(), f.e())
            },
    {
        debug_assert_adjacent!(tokens);

        let mut t = Text::empty(offset);
        if tokens.is_empty() {
            return t;
        }
        let mut start = tokens[0].span.start();
        let mut end = start;
        assert_eq!(offset, start, "Offset of {:?} must be {offset}", tokens[0]);

        for token in it: tokens
            invariant
                toks_ok(tokens@, self.input), tokens@.len() > 0,
                t.wf(),
                t.end_spec() <= start <= end,
                end <= cur(tokens@, it.index@ as int),
                bnd(self.input, start as int), bnd(self.input, end as int),
                tokens@[0].span.s() <= start,
                forall|k: int| 0 <= k < t.frags().len() ==> {
                    let f = #[trigger] t.frags()[k];
                    &&& tokens@[0].span.s() <= f.s() && f.e() <= start
                    &&& bnd(self.input, f.s()) && bnd(self.input, f.e())
                    &&& f.txt().spec_bytes() == self.input.spec_bytes().subrange(f.s(), f.e())
                },
        {
            proof { let idx = it.index@ as int; lemma_mono(tokens@, self.input, 0, idx); assert(*token == tokens@[idx]); if idx > 0 { assert(tokens@[idx - 1].span.e() == tokens@[idx].span.s()); } }
            match token.kind {
                T![newline] => {
                    t.append_str(str_slice(self.input, start, end), start);
                    t.append_fragment(TextFragment::soft_break(
                        str_slice(self.input, token.span.start(), token.span.end()),
                        token.span.start(),
                    ));
                    start = token.span.end();
                    end = start;
                }
                T![line comment] | T![block comment] => {
                    t.append_str(str_slice(self.input, start, end), start);
                    start = token.span.end();
                    end = start;
                }
                T![escaped] => {
                    t.append_str(str_slice(self.input, start, end), start);
                    // [probe] escaped-length assertion removed here to check the remaining obligations
                    start = token.span.start() + 1; // skip "\"
                    end = token.span.end()
                }
                _ => end = token.span.end(),
            }
        }
        proof { lemma_mono(tokens@, self.input, 0, tokens@.len() - 1); }
        t.append_str(str_slice(self.input, start, end), start);
        t
    }
}

} // verus!
impl std::fmt::Debug for Span { fn fmt(&self, f: &mut std::fmt::Formatter<'_>) -> std::fmt::Result { write!(f, "{}..{}", self.start, self.end) } }
fn main() {}
