use vstd::prelude::*;
verus! {
#[derive(Debug, Clone, Copy, PartialEq, Eq)]
pub enum K { Open, Close, Word }
#[derive(Clone, Copy)]
pub struct Tok { pub kind: K, pub s: usize, pub e: usize }

pub struct BP<'t> { tokens: &'t [Tok], current: usize, warned: usize }

impl<'t> BP<'t> {
    pub closed spec fn wf(&self) -> bool { self.current <= self.tokens@.len() }

    fn with_recover<F, O>(&mut self, f: F) -> (r: Option<O>)
    where
        F: FnOnce(&mut Self) -> Option<O>,
        requires old(self).wf(), f.requires((&mut *old(self),)),
    {
        let old_current = self.current;
        let r = f(self);
        if r.is_none() {
            self.current = old_current;
        }
        r
    }

    fn consume(&mut self, k: K) -> (r: Option<Tok>)
        requires old(self).wf() ensures final(self).wf()
    {
        if self.current < self.tokens.len() && self.tokens[self.current].kind == k {
            let t = self.tokens[self.current];
            self.current += 1;
            Some(t)
        } else { None }
    }

    fn check_note(&mut self)
        requires old(self).wf()
    {
        let r = self.with_recover(|bp: &mut Self| -> (o: Option<()>) {
            let start = bp.consume(K::Open)?.s;
            bp.warned = start - 1;
            None::<()>
        });
        assert!(r.is_none());
    }
}
} // verus!
fn main() {}
