use vstd::prelude::*;
use vstd::std_specs::iter::IteratorSpec;
verus! {
pub assume_specification<T: Default>[ core::mem::take::<T> ](dest: &mut T) -> (r: T)
    ensures r == *old(dest);

pub enum BlockKind { Step, Text }
pub enum Event { Front(u8), Meta(u8), Start(BlockKind), End(BlockKind), Text(u8), Ingr(u8) }
pub enum Item { Text(u8), Ingr(Box<u8>) }
pub enum Block { Meta(u8), Step { items: Vec<Item> }, TextBlock(Vec<u8>) }

pub fn build_ast(events: impl Iterator<Item = Event>) -> Vec<Block>
    requires events.obeys_prophetic_iter_laws(), events.decrease().is_some(),
{
    let mut blocks = Vec::new();
    let mut items = Vec::new();
    for event in events {
        match event {
            Event::Front(_) => todo!(),
            Event::Meta(k) => blocks.push(Block::Meta(k)),
            Event::Start(_kind) => items.clear(),
            Event::End(kind) => {
                match kind {
                    BlockKind::Step => {
                        if !items.is_empty() {
                            blocks.push(Block::Step {
                                items: std::mem::take(&mut items),
                            })
                        }
                    }
                    BlockKind::Text => {
                        let texts = std::mem::take(&mut items)
                            .into_iter()
                            .map(|i| {
                                if let Item::Text(t) = i {
                                    t
                                } else {
                                    panic!("Not text in text block");
                                }
                            })
                            .collect();
                        blocks.push(Block::TextBlock(texts))
                    }
                };
            }
            Event::Text(t) => items.push(Item::Text(t)),
            Event::Ingr(c) => items.push(Item::Ingr(Box::new(c))),
        }
    }
    blocks
}
} // verus!
fn main() {}
