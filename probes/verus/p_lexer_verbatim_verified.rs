use vstd::prelude::*;
use vstd::std_specs::iter::IteratorSpec;
use vstd::string::StringSliceAdditionalSpecFns;
use std::str::Chars;
verus! {

// ---- trusted string model (prelude) ----
pub open spec fn char_len(c: char) -> nat {
    if (c as u32) < 0x80 { 1 } else if (c as u32) < 0x800 { 2 } else if (c as u32) < 0x10000 { 3 } else { 4 }
}
pub open spec fn utf8len(s: Seq<char>) -> nat decreases s.len() {
    if s.len() == 0 { 0 } else { char_len(s[0]) + utf8len(s.drop_first()) }
}
#[verifier::external_body]
pub fn str_blen(s: &str) -> (r: usize) ensures r == utf8len(s@) { s.len() }

pub assume_specification<'a>[ Chars::<'a>::as_str ](c: &Chars<'a>) -> (r: &'a str)
    ensures r@ == c.remaining();

pub assume_specification<'a>[ <Chars<'a> as Clone>::clone ](c: &Chars<'a>) -> (r: Chars<'a>)
    ensures r.remaining() == c.remaining();

pub open spec fn suffix(a: Seq<char>, b: Seq<char>) -> bool { exists|k: int| 0 <= k <= a.len() && b == a.skip(k) }

pub proof fn lemma_utf8len_skip(s: Seq<char>, k: int)
    requires 0 <= k <= s.len()
    ensures utf8len(s) >= utf8len(s.skip(k)) + k
    decreases k
{
    if k == 0 { assert(s.skip(0) =~= s); }
    else {
        lemma_utf8len_skip(s.drop_first(), k - 1);
        assert(s.drop_first().skip(k - 1) =~= s.skip(k));
    }
}
pub proof fn lemma_suffix_trans(a: Seq<char>, b: Seq<char>, c: Seq<char>)
    requires suffix(a, b), suffix(b, c) ensures suffix(a, c)
{
    let k1 = choose|k: int| 0 <= k <= a.len() && b == a.skip(k);
    let k2 = choose|k: int| 0 <= k <= b.len() && c == b.skip(k);
    assert(a.skip(k1).skip(k2) =~= a.skip(k1 + k2));
}
pub proof fn lemma_suffix_refl(a: Seq<char>) ensures suffix(a, a) { assert(a.skip(0) =~= a); }
pub broadcast proof fn lemma_suffix_trans_b(a: Seq<char>, b: Seq<char>, c: Seq<char>)
    requires #[trigger] suffix(a, b), #[trigger] suffix(b, c) ensures suffix(a, c)
{ lemma_suffix_trans(a, b, c); }
pub broadcast proof fn lemma_suffix_len(a: Seq<char>, b: Seq<char>)
    requires #[trigger] suffix(a, b) ensures utf8len(b) <= utf8len(a)
{
    let k = choose|k: int| 0 <= k <= a.len() && b == a.skip(k);
    lemma_utf8len_skip(a, k);
}
pub proof fn lemma_suffix_drop(a: Seq<char>) requires a.len() > 0 ensures suffix(a, a.drop_first()) { assert(a.skip(1) =~= a.drop_first()); }

// ---- src/lexer/cursor.rs ----
pub struct Cursor<'a> {
    len_remaining: usize,
    chars: Chars<'a>,
    #[cfg(debug_assertions)]
    prev: char,
}

pub const EOF_CHAR: char = '\0';

impl<'a> Cursor<'a> {
    #[verifier::prophetic]
    pub closed spec fn rem(&self) -> Seq<char> { self.chars.remaining() }
    #[verifier::prophetic]
    pub closed spec fn inv(&self) -> bool { self.len_remaining >= utf8len(self.chars.remaining()) && self.chars.decrease().is_some() }
    pub closed spec fn fuel(&self) -> nat { self.chars.decrease().unwrap() }
    pub closed spec fn mark(&self) -> nat { self.len_remaining as nat }
    pub closed spec fn prev_spec(&self) -> char { self.prev }

    fn first(&self) -> (r: char)
        ensures self.rem().len() > 0 ==> r == self.rem()[0], self.rem().len() == 0 ==> r == EOF_CHAR
    {
        // cloning chars is cheap as it's only a view into memory
        self.chars.clone().next().unwrap_or(EOF_CHAR)
    }

    fn is_eof(&self) -> (r: bool) ensures r == (self.rem().len() == 0) {
        self.chars.as_str().is_empty()
    }

    fn pos_within_token(&self) -> (r: u32)
        requires self.inv(), self.mark() - utf8len(self.rem()) <= u32::MAX
        ensures r == self.mark() - utf8len(self.rem())
    {
        (self.len_remaining - str_blen(self.chars.as_str())) as u32
    }

    fn reset_pos_within_token(&mut self)
        requires old(self).inv()
        ensures final(self).inv(), final(self).rem() == old(self).rem(), final(self).mark() == utf8len(final(self).rem())
    {
        self.len_remaining = str_blen(self.chars.as_str());
    }

    fn bump(&mut self) -> (r: Option<char>)
        requires old(self).inv()
        ensures final(self).inv(), final(self).mark() == old(self).mark(),
            r.is_none() ==> old(self).rem().len() == 0 && final(self).rem() == old(self).rem() && final(self).prev_spec() == old(self).prev_spec(),
            r.is_some() ==> final(self).prev_spec() == r.unwrap(),
            suffix(old(self).rem(), final(self).rem()),
            r.is_some() ==> old(self).rem().len() > 0 && r.unwrap() == old(self).rem()[0] && final(self).rem() == old(self).rem().drop_first() && final(self).fuel() < old(self).fuel(),
    {
        proof { assert(self.rem().skip(0) =~= self.rem()); assert(self.rem().len() > 0 ==> self.rem().skip(1) =~= self.rem().drop_first()); }
        let c = self.chars.next()?;
        #[cfg(debug_assertions)]
        {
            self.prev = c;
        }
        Some(c)
    }
}


impl<'a> Cursor<'a> {
    /// Returns the last eaten symbol.
    pub(crate) fn prev(&self) -> (r: char) ensures r == self.prev_spec() {
        #[cfg(debug_assertions)]
        {
            self.prev
        }
        #[cfg(not(debug_assertions))]
        {
            EOF_CHAR
        }
    }

    /// Eats symbols while predicate returns true or until the end of file is reached.
    pub(crate) fn eat_while(&mut self, mut predicate: impl FnMut(char) -> bool)
        requires old(self).inv(), forall|c: char| #[trigger] predicate.requires((c,)),
        ensures final(self).inv(), final(self).mark() == old(self).mark(),
            suffix(old(self).rem(), final(self).rem()),
    {
        proof { assert(self.rem().skip(0) =~= self.rem()); }
        while predicate(self.first()) && !self.is_eof()
            invariant
                self.inv(), self.mark() == old(self).mark(),
                forall|c: char| #[trigger] predicate.requires((c,)),
                exists|k: int| 0 <= k <= old(self).rem().len() && self.rem() == old(self).rem().skip(k),
            decreases self.fuel()
        {
            let ghost pre = self.rem();
            let ghost k0 = choose|k: int| 0 <= k <= old(self).rem().len() && self.rem() == old(self).rem().skip(k);
            self.bump();
            proof {
                assert(self.rem() == pre.drop_first());
                assert(pre.drop_first() =~= old(self).rem().skip(k0 + 1));
            }
        }
    }
}

// ---- assumed contracts on dependencies (finl_unicode, core::char) ----
pub uninterp spec fn sep_space_spec(c: char) -> bool;
#[verifier::external_body] pub fn ch_is_separator_space(c: char) -> (r: bool) ensures r == sep_space_spec(c) { unimplemented!() }
#[verifier::external_body] pub fn ch_is_punctuation(c: char) -> bool { unimplemented!() }
pub assume_specification[ char::is_alphabetic ](c: char) -> (r: bool);
pub assume_specification[ char::is_ascii_digit ](c: &char) -> (r: bool) ensures r == ('0' <= *c && *c <= '9');

// ---- src/lexer/mod.rs ----
#[derive(Debug)]
pub struct Token {
    pub kind: TokenKind,
    pub len: u32,
}

impl Token {
    fn new(kind: TokenKind, len: u32) -> (r: Token) ensures r.kind == kind, r.len == len {
        Token { kind, len }
    }
}

#[derive(Debug, Clone, Copy, PartialEq, Eq)]
pub enum TokenKind {
    MetadataStart, TextStep, Colon, At, Hash, Tilde, Question, Plus, Minus, Slash, Star, And, Or, Eq, Percent,
    OpenBrace, CloseBrace, OpenParen, CloseParen, Dot,
    Int, ZeroInt, Punctuation, Word, Escaped, Whitespace, Newline, LineComment, BlockComment, Eof,
}

pub open spec fn ws_spec(c: char) -> bool { sep_space_spec(c) || c == '\t' }

fn is_whitespace(c: char) -> (r: bool) ensures r == ws_spec(c) {
    ch_is_separator_space(c) || c == '\t'
}

fn is_word_char(c: char) -> bool {
    // this is critical code for performance, check lexer benchmark before and after chaging it
    match c {
        c if c.is_alphabetic() => true, // quick return true
        ' ' | '\n' | '\r' | '\t' | '0'..='9' | '.' => false, // common chars that break a word
        '>' | ':' | '@' | '#' | '~' | '?' | '+' | '-' | '/' | '*' | '&' | '|' | '=' | '%' | '{'
        | '}' | '(' | ')' => false,
        c if ch_is_separator_space(c) || ch_is_punctuation(c) => false, // '\' (escape) is punctuation and not common, so I will leave it here
        _ => true,
    }
}

impl Cursor<'_> {
    #[verifier::prophetic]
    pub closed spec fn at_start(&self) -> bool { self.inv() && self.mark() == utf8len(self.rem()) }

    pub fn advance_token(&mut self) -> (token: Token)
        requires old(self).at_start(), utf8len(old(self).rem()) <= u32::MAX,
        ensures final(self).at_start(), suffix(old(self).rem(), final(self).rem()),
            token.len == utf8len(old(self).rem()) - utf8len(final(self).rem()),
            (token.kind == TokenKind::Eof) == (old(self).rem().len() == 0),
            old(self).rem().len() > 0 ==> token.len >= 1,
    {
        broadcast use {lemma_suffix_trans_b, lemma_suffix_len};
        let current = match self.bump() {
            Some(c) => c,
            None => return Token::new(TokenKind::Eof, 0),
        };

        let token_kind = match current {
            '\\' => {
                self.bump(); // any
                TokenKind::Escaped
            }

            '>' => {
                if self.first() == '>' {
                    self.bump(); // '>'
                    TokenKind::MetadataStart
                } else {
                    TokenKind::TextStep
                }
            }
            '-' => match self.first() {
                '-' => self.line_comment(),
                _ => TokenKind::Minus,
            },
            '[' if self.first() == '-' => self.block_comment(),
            '\n' => TokenKind::Newline,
            '\r' if self.first() == '\n' => {
                self.bump(); // '\n'
                TokenKind::Newline
            }
            c @ '0'..='9' => self.number(c),

            ':' => TokenKind::Colon,
            '@' => TokenKind::At,
            '#' => TokenKind::Hash,
            '~' => TokenKind::Tilde,
            '?' => TokenKind::Question,
            '+' => TokenKind::Plus,
            '/' => TokenKind::Slash,
            '*' => TokenKind::Star,
            '&' => TokenKind::And,
            '|' => TokenKind::Or,
            '%' => TokenKind::Percent,
            '=' => TokenKind::Eq,
            '{' => TokenKind::OpenBrace,
            '}' => TokenKind::CloseBrace,
            '(' => TokenKind::OpenParen,
            ')' => TokenKind::CloseParen,
            '.' => TokenKind::Dot,

            c if is_whitespace(c) => self.whitespace(),
            c if ch_is_punctuation(c) => TokenKind::Punctuation,

            // anything else, word
            _ => self.word(),
        };
        let token = Token::new(token_kind, self.pos_within_token());
        self.reset_pos_within_token();
        token
    }

    fn line_comment(&mut self) -> (r: TokenKind)
        requires old(self).inv(), old(self).mark() <= u32::MAX,
            old(self).prev_spec() == '-', old(self).rem().len() > 0, old(self).rem()[0] == '-',
        ensures final(self).inv(), final(self).mark() == old(self).mark(), suffix(old(self).rem(), final(self).rem()), r == TokenKind::LineComment,
    {
        debug_assert!(self.prev() == '-' && self.first() == '-');
        // this makes the next newline don't have the '\r' if on windows, but
        // I don't think that's a problem
        self.eat_while(|c| c != '\n');
        TokenKind::LineComment
    }

    fn block_comment(&mut self) -> (r: TokenKind)
        requires old(self).inv(), old(self).mark() <= u32::MAX,
            old(self).prev_spec() == '[', old(self).rem().len() > 0, old(self).rem()[0] == '-',
        ensures final(self).inv(), final(self).mark() == old(self).mark(), suffix(old(self).rem(), final(self).rem()), r == TokenKind::BlockComment,
    {
        debug_assert!(self.prev() == '[' && self.first() == '-');
        self.bump(); // '-'
        broadcast use lemma_suffix_trans_b;
        while let Some(c) = self.bump()
            invariant self.inv(), self.mark() == old(self).mark(), suffix(old(self).rem(), self.rem()),
            decreases self.fuel()
        {
            broadcast use lemma_suffix_trans_b;
            match c {
                '-' if self.first() == ']' => {
                    self.bump();
                    break;
                }
                _ => {}
            }
        }
        TokenKind::BlockComment
    }

    fn word(&mut self) -> (r: TokenKind)
        requires old(self).inv(), old(self).mark() <= u32::MAX,
            old(self).mark() - utf8len(old(self).rem()) > 0,
        ensures final(self).inv(), final(self).mark() == old(self).mark(), suffix(old(self).rem(), final(self).rem()), r == TokenKind::Word,
    {
        debug_assert!(self.pos_within_token() > 0); // at least one char
        self.eat_while(is_word_char);
        TokenKind::Word
    }

    fn whitespace(&mut self) -> (r: TokenKind)
        requires old(self).inv(), old(self).mark() <= u32::MAX,
            ws_spec(old(self).prev_spec()),
        ensures final(self).inv(), final(self).mark() == old(self).mark(), suffix(old(self).rem(), final(self).rem()), r == TokenKind::Whitespace,
    {
        debug_assert!(is_whitespace(self.prev()));
        self.eat_while(is_whitespace);
        TokenKind::Whitespace
    }

    fn number(&mut self, c: char) -> (r: TokenKind)
        requires old(self).inv(), old(self).mark() <= u32::MAX,
            '0' <= old(self).prev_spec() && old(self).prev_spec() <= '9',
        ensures final(self).inv(), final(self).mark() == old(self).mark(), suffix(old(self).rem(), final(self).rem()), r == TokenKind::Int || r == TokenKind::ZeroInt,
    {
        debug_assert!(self.prev().is_ascii_digit());
        self.eat_while(|c| c.is_ascii_digit());
        let leading_zero = c == '0' && self.pos_within_token() > 1;
        if leading_zero {
            TokenKind::ZeroInt
        } else {
            TokenKind::Int
        }
    }
}

} // verus!
fn main() {}
