use vstd::prelude::*;
use vstd::std_specs::iter::IteratorSpec;
verus! {

// ---- trusted: slice::Iter::position (first index whose predicate holds) ----
pub assume_specification<'a, T, P: FnMut(&'a T) -> bool>[ <core::slice::Iter<'a, T> as Iterator>::position::<P> ](it: &mut core::slice::Iter<'a, T>, pred: P) -> (r: Option<usize>) where core::slice::Iter<'a, T>: Sized
    requires forall|x: &'a T| #[trigger] pred.requires((x,)),
    ensures
        r.is_some() ==> r.unwrap() < old(it).remaining().len()
            && pred.ensures((old(it).remaining()[r.unwrap() as int],), true)
            && forall|i: int| 0 <= i < r.unwrap() ==> pred.ensures((#[trigger] old(it).remaining()[i],), false),
        r.is_none() ==> forall|i: int| 0 <= i < old(it).remaining().len() ==> pred.ensures((#[trigger] old(it).remaining()[i],), false),
;

#[derive(Debug, Clone, Copy, PartialEq, Eq)]
pub enum TokenKind { Word, Ws, Colon, Eof }
#[derive(Debug, Clone, Copy, PartialEq, Eq)]
pub struct Token { pub kind: TokenKind, pub s: usize, pub e: usize }

pub struct BlockParser<'t> { tokens: &'t [Token], pub(crate) current: usize }

impl<'t> BlockParser<'t> {
    pub closed spec fn wf(&self) -> bool { self.current <= self.tokens@.len() }
    pub closed spec fn cur(&self) -> int { self.current as int }
    pub closed spec fn toks(&self) -> Seq<Token> { self.tokens@ }

    /// Returns the not parsed tokens
    pub(crate) fn rest(&self) -> (r: &'t [Token])
        requires self.wf()
        ensures r@ == self.toks().subrange(self.cur(), self.toks().len() as int)
    {
        self.tokens.split_at(self.current).1
    }

    /// Takes until condition reached, if never reached, return none
    pub(crate) fn until(&mut self, f: impl Fn(TokenKind) -> bool) -> (r: Option<&'t [Token]>)
        requires old(self).wf(), forall|k: TokenKind| #[trigger] f.requires((k,)),
        ensures final(self).wf(), final(self).toks() == old(self).toks(),
            r.is_none() ==> final(self).cur() == old(self).cur()
                && forall|i: int| old(self).cur() <= i < old(self).toks().len() ==> f.ensures((#[trigger] old(self).toks()[i].kind,), false),
            r.is_some() ==> old(self).cur() <= final(self).cur() < old(self).toks().len()
                && r.unwrap()@ == old(self).toks().subrange(old(self).cur(), final(self).cur())
                && f.ensures((old(self).toks()[final(self).cur()].kind,), true)
                && forall|i: int| old(self).cur() <= i < final(self).cur() ==> f.ensures((#[trigger] old(self).toks()[i].kind,), false),
    {
        let rest = self.rest();
        let pos = rest.iter().position(|t| f(t.kind))?;
        let s = &rest[..pos];
        self.current += pos;
        Some(s)
    }

    /// Consumes while the closure returns true or the block ends
    pub(crate) fn consume_while(&mut self, f: impl Fn(TokenKind) -> bool) -> (s: &'t [Token])
        requires old(self).wf(), forall|k: TokenKind| #[trigger] f.requires((k,)),
        ensures final(self).wf(), final(self).toks() == old(self).toks(),
            old(self).cur() <= final(self).cur() <= old(self).toks().len(),
            s@ == old(self).toks().subrange(old(self).cur(), final(self).cur()),
    {
        let rest = self.rest();
        let pos = rest.iter().position(|t| !f(t.kind)).unwrap_or(rest.len());
        let s = &rest[..pos];
        self.current += pos;
        s
    }
}
} // verus!
fn main() {}
