use vstd::prelude::*;

macro_rules! T {
    [@] => { crate::TokenKind::At };
    [ws] => { crate::TokenKind::Whitespace };
    [newline] => { crate::TokenKind::Newline };
    [block comment] => { crate::TokenKind::BlockComment };
    [line comment] => { crate::TokenKind::LineComment };
    ['{'] => { crate::TokenKind::OpenBrace };
}
macro_rules! mt {
    ($($reprs:tt)|*) => {
        $(crate::Token { kind: T![$reprs], .. })|+
    }
}

verus! {

#[derive(Debug, Clone, Copy, PartialEq, Eq)]
pub enum TokenKind { At, Whitespace, Newline, BlockComment, LineComment, OpenBrace, Word }
#[derive(Clone, Copy)]
pub struct Span { pub start: usize, pub end: usize }
#[derive(Clone, Copy)]
pub struct Token { pub kind: TokenKind, pub span: Span }

fn is_empty_token(tok: &Token) -> bool {
    matches!(
        tok.kind,
        T![ws] | T![block comment] | T![line comment] | T![newline]
    )
}

fn is_single_line_marker(first: Option<&Token>) -> bool {
    matches!(first, Some(mt![@ | '{']))
}

fn trim(block: &Vec<Token>, start: usize, end0: usize) -> (end: usize)
    requires start <= end0 <= block@.len(), end0 >= 1,
    ensures start <= end <= end0 || end == end0,
{
    let mut end = end0;
    // trim trailing newline
    while let mt![newline] = block[end - 1]
        invariant 1 <= end <= end0 <= block@.len(),
        decreases end
    {
        if end <= start {
            break;
        }
        end -= 1;
    }
    end
}

} // verus!
fn main() {}
