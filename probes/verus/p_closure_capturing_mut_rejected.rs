use vstd::prelude::*;
verus! {
pub struct BP { current: usize, errs: usize }
impl BP {
    fn error(&mut self) ensures final(self).current == old(self).current { self.errs = if self.errs < 100 { self.errs + 1 } else { self.errs }; }
}
fn parse_quantity(bp: &mut BP, tokens: &[u8]) -> (r: u8)
    ensures final(bp).current == old(bp).current
{ if tokens.len() == 0 { bp.error(); } 1 }

fn ingredient(bp: &mut BP, q: Option<&[u8]>) -> (r: Option<u8>)
    ensures final(bp).current == old(bp).current
{
    let quantity = q.map(|tokens| parse_quantity(bp, tokens));
    quantity
}
} // verus!
fn main() {}
