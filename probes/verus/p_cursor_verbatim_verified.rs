use vstd::prelude::*;
use vstd::std_specs::iter::IteratorSpec;
use vstd::string::StringSliceAdditionalSpecFns;
use std::str::Chars;
verus! {

// ---- trusted string model (prelude) ----
pub open spec fn char_len(c: char) -> nat {
    if (c as u32) < 0x80 { 1 } else if (c as u32) < 0x800 { 2 } else if (c as u32) < 0x10000 { 3 } else { 4 }
}
pub open spec fn utf8len(s: Seq<char>) -> nat decreases s.len() {
    if s.len() == 0 { 0 } else { char_len(s[0]) + utf8len(s.drop_first()) }
}
#[verifier::external_body]
pub fn str_blen(s: &str) -> (r: usize) ensures r == utf8len(s@) { s.len() }

pub assume_specification<'a>[ Chars::<'a>::as_str ](c: &Chars<'a>) -> (r: &'a str)
    ensures r@ == c.remaining();

pub assume_specification<'a>[ <Chars<'a> as Clone>::clone ](c: &Chars<'a>) -> (r: Chars<'a>)
    ensures r.remaining() == c.remaining();

// ---- src/lexer/cursor.rs ----
pub struct Cursor<'a> {
    len_remaining: usize,
    chars: Chars<'a>,
}

pub const EOF_CHAR: char = '\0';

impl<'a> Cursor<'a> {
    #[verifier::prophetic]
    pub closed spec fn rem(&self) -> Seq<char> { self.chars.remaining() }
    #[verifier::prophetic]
    pub closed spec fn inv(&self) -> bool { self.len_remaining >= utf8len(self.chars.remaining()) }
    pub closed spec fn mark(&self) -> nat { self.len_remaining as nat }

    fn first(&self) -> (r: char)
        ensures self.rem().len() > 0 ==> r == self.rem()[0], self.rem().len() == 0 ==> r == EOF_CHAR
    {
        // cloning chars is cheap as it's only a view into memory
        self.chars.clone().next().unwrap_or(EOF_CHAR)
    }

    fn is_eof(&self) -> (r: bool) ensures r == (self.rem().len() == 0) {
        self.chars.as_str().is_empty()
    }

    fn pos_within_token(&self) -> (r: u32)
        requires self.inv(), self.mark() - utf8len(self.rem()) <= u32::MAX
        ensures r == self.mark() - utf8len(self.rem())
    {
        (self.len_remaining - str_blen(self.chars.as_str())) as u32
    }

    fn reset_pos_within_token(&mut self)
        ensures final(self).inv(), final(self).rem() == old(self).rem(), final(self).mark() == utf8len(final(self).rem())
    {
        self.len_remaining = str_blen(self.chars.as_str());
    }

    fn bump(&mut self) -> (r: Option<char>)
        requires old(self).inv()
        ensures final(self).inv(), final(self).mark() == old(self).mark(),
            r.is_none() ==> old(self).rem().len() == 0 && final(self).rem() == old(self).rem(),
            r.is_some() ==> old(self).rem().len() > 0 && r.unwrap() == old(self).rem()[0] && final(self).rem() == old(self).rem().drop_first(),
    {
        let c = self.chars.next()?;
        Some(c)
    }
}

} // verus!
fn main() {}
