use vstd::prelude::*;
use vstd::std_specs::iter::IteratorSpec;
use vstd::string::StringSliceAdditionalSpecFns;
use std::str::Chars;
verus! {

// ---- trusted string model (prelude) ----
pub open spec fn char_len(c: char) -> nat {
    if (c as u32) < 0x80 { 1 } else if (c as u32) < 0x800 { 2 } else if (c as u32) < 0x10000 { 3 } else { 4 }
}
pub open spec fn utf8len(s: Seq<char>) -> nat decreases s.len() {
    if s.len() == 0 { 0 } else { char_len(s[0]) + utf8len(s.drop_first()) }
}
#[verifier::external_body]
pub fn str_blen(s: &str) -> (r: usize) ensures r == utf8len(s@) { s.len() }

pub assume_specification<'a>[ Chars::<'a>::as_str ](c: &Chars<'a>) -> (r: &'a str)
    ensures r@ == c.remaining();

pub assume_specification<'a>[ <Chars<'a> as Clone>::clone ](c: &Chars<'a>) -> (r: Chars<'a>)
    ensures r.remaining() == c.remaining();

// ---- src/lexer/cursor.rs ----
pub struct Cursor<'a> {
    len_remaining: usize,
    chars: Chars<'a>,
    #[cfg(debug_assertions)]
    prev: char,
}

pub const EOF_CHAR: char = '\0';

impl<'a> Cursor<'a> {
    #[verifier::prophetic]
    pub closed spec fn rem(&self) -> Seq<char> { self.chars.remaining() }
    #[verifier::prophetic]
    pub closed spec fn inv(&self) -> bool { self.len_remaining >= utf8len(self.chars.remaining()) && self.chars.decrease().is_some() }
    pub closed spec fn fuel(&self) -> nat { self.chars.decrease().unwrap() }
    pub closed spec fn mark(&self) -> nat { self.len_remaining as nat }

    fn first(&self) -> (r: char)
        ensures self.rem().len() > 0 ==> r == self.rem()[0], self.rem().len() == 0 ==> r == EOF_CHAR
    {
        // cloning chars is cheap as it's only a view into memory
        self.chars.clone().next().unwrap_or(EOF_CHAR)
    }

    fn is_eof(&self) -> (r: bool) ensures r == (self.rem().len() == 0) {
        self.chars.as_str().is_empty()
    }

    fn pos_within_token(&self) -> (r: u32)
        requires self.inv(), self.mark() - utf8len(self.rem()) <= u32::MAX
        ensures r == self.mark() - utf8len(self.rem())
    {
        (self.len_remaining - str_blen(self.chars.as_str())) as u32
    }

    fn reset_pos_within_token(&mut self)
        ensures final(self).inv(), final(self).rem() == old(self).rem(), final(self).mark() == utf8len(final(self).rem())
    {
        self.len_remaining = str_blen(self.chars.as_str());
    }

    fn bump(&mut self) -> (r: Option<char>)
        requires old(self).inv()
        ensures final(self).inv(), final(self).mark() == old(self).mark(),
            r.is_none() ==> old(self).rem().len() == 0 && final(self).rem() == old(self).rem(),
            r.is_some() ==> old(self).rem().len() > 0 && r.unwrap() == old(self).rem()[0] && final(self).rem() == old(self).rem().drop_first() && final(self).fuel() < old(self).fuel(),
    {
        let c = self.chars.next()?;
        Some(c)
    }
}


impl<'a> Cursor<'a> {
    /// Returns the last eaten symbol.
    pub(crate) fn prev(&self) -> char {
        #[cfg(debug_assertions)]
        {
            self.prev
        }
        #[cfg(not(debug_assertions))]
        {
            EOF_CHAR
        }
    }

    /// Eats symbols while predicate returns true or until the end of file is reached.
    pub(crate) fn eat_while(&mut self, mut predicate: impl FnMut(char) -> bool)
        requires old(self).inv(), forall|c: char| #[trigger] predicate.requires((c,)),
        ensures final(self).inv(), final(self).mark() == old(self).mark(),
            exists|k: int| 0 <= k <= old(self).rem().len() && final(self).rem() == old(self).rem().skip(k),
    {
        proof { assert(self.rem().skip(0) =~= self.rem()); }
        while predicate(self.first()) && !self.is_eof()
            invariant
                self.inv(), self.mark() == old(self).mark(),
                forall|c: char| #[trigger] predicate.requires((c,)),
                exists|k: int| 0 <= k <= old(self).rem().len() && self.rem() == old(self).rem().skip(k),
            decreases self.fuel()
        {
            let ghost pre = self.rem();
            let ghost k0 = choose|k: int| 0 <= k <= old(self).rem().len() && self.rem() == old(self).rem().skip(k);
            self.bump();
            proof {
                assert(self.rem() == pre.drop_first());
                assert(pre.drop_first() =~= old(self).rem().skip(k0 + 1));
            }
        }
    }
}
} // verus!
fn main() {}
