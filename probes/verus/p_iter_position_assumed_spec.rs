use vstd::prelude::*;
use vstd::std_specs::iter::IteratorSpec;
verus! {

pub assume_specification<'a, T, P: FnMut(&'a T) -> bool>[ <core::slice::Iter<'a, T> as Iterator>::position::<P> ](it: &mut core::slice::Iter<'a, T>, pred: P) -> (r: Option<usize>) where core::slice::Iter<'a, T>: Sized
    requires forall|x: &'a T| #[trigger] pred.requires((x,)),
    ensures
        r.is_some() ==> r.unwrap() < old(it).remaining().len()
            && pred.ensures((old(it).remaining()[r.unwrap() as int],), true)
            && forall|i: int| 0 <= i < r.unwrap() ==> pred.ensures((#[trigger] old(it).remaining()[i],), false),
        r.is_none() ==> forall|i: int| 0 <= i < old(it).remaining().len() ==> pred.ensures((#[trigger] old(it).remaining()[i],), false),
;

fn find_zero(v: &[u8]) -> (r: usize)
    ensures r <= v@.len(),
       r < v@.len() ==> v@[r as int] == 0,
       forall|i: int| 0 <= i < r ==> v@[i] != 0,
{
    let it_pos = v.iter().position(|x: &u8| -> (b: bool) ensures b == (*x == 0) { *x == 0 });
    match it_pos { Some(p) => p, None => v.len() }
}

} // verus!
fn main() {}
