use vstd::prelude::*;
use std::collections::VecDeque;
verus! {
#[derive(Debug, Clone, Copy, PartialEq, Eq)]
pub enum K { Newline, Ws, Word, Meta }
#[derive(Clone, Copy)]
pub struct Tok { pub kind: K, pub s: usize, pub e: usize }

pub struct LineInfo { is_empty: bool, is_single_line: bool }

pub struct PP<T> where T: Iterator<Item = Tok> {
    tokens: std::iter::Peekable<T>,
    block: Vec<Tok>,
    queue: VecDeque<u8>,
}

fn is_empty_token(tok: &Tok) -> bool { matches!(tok.kind, K::Ws | K::Newline) }
fn is_single_line_marker(first: Option<&Tok>) -> bool { matches!(first, Some(Tok { kind: K::Meta, .. })) }

impl<T> PP<T> where T: Iterator<Item = Tok> {
    fn pull_line(&mut self) -> Option<LineInfo> {
        let mut is_empty = true;
        let mut no_tokens = true;
        let is_single_line = is_single_line_marker(self.tokens.peek());
        for tok in self.tokens.by_ref() {
            self.block.push(tok);
            no_tokens = false;

            if !is_empty_token(&tok) {
                is_empty = false;
            }

            if tok.kind == K::Newline {
                break;
            }
        }
        if no_tokens {
            None
        } else {
            self.queue.push_back(1);
            Some(LineInfo {
                is_empty,
                is_single_line,
            })
        }
    }
}
} // verus!
fn main() {}
