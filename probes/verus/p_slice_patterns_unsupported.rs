use vstd::prelude::*;
verus! {
#[derive(Debug, Clone, Copy, PartialEq, Eq)]
pub enum K { Int, Dot, Slash, Ws }
#[derive(Clone, Copy)]
pub struct Tok { pub kind: K, pub a: usize }

fn classify(ts: &[Tok]) -> u8 {
    match ts {
        &[Tok { kind: K::Int, .. }] => 1,
        &[Tok { kind: K::Int, .. }, Tok { kind: K::Dot, .. }, Tok { kind: K::Int, .. }] => 2,
        _ => 0,
    }
}
fn classify2(ts: &[Tok]) -> u8 {
    match *ts {
        [i @ Tok { kind: K::Int, .. }] => 1,
        [.., s @ Tok { kind: K::Slash, .. }, Tok { kind: K::Int, .. }] => 3,
        [] => 4,
        _ => 0,
    }
}
} // verus!
fn main() {}
