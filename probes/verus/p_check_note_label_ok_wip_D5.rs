use vstd::prelude::*;
use vstd::std_specs::iter::IteratorSpec;

// ---- PRELUDE macro shadows (X3) ----
macro_rules! format { ($fmt:literal $(, $arg:expr)* $(,)?) => { { $( let _ = &$arg; )* crate::fmt_opaque() } }; }
macro_rules! assert_eq { ($a:expr, $b:expr $(, $($rest:tt)*)?) => { assert!($a == $b) }; }
macro_rules! assert_ne { ($a:expr, $b:expr $(, $($rest:tt)*)?) => { assert!($a != $b) }; }
// repository macros (src/error.rs, src/parser/mod.rs) with the span precondition attached
macro_rules! label {
    ($span:expr $(,)?) => { crate::mk_label($span) };
    ($span:expr, $message:expr $(,)?) => { crate::mk_label_msg($span, $message) };
}
macro_rules! warning {
    ($msg:expr, $label:expr $(,)?) => { crate::SourceDiag::warning($msg, $label) };
}
macro_rules! T {
    ['('] => { crate::TokenKind::OpenParen };
    [')'] => { crate::TokenKind::CloseParen };
}

verus! {

pub assume_specification<'a, T, P: FnMut(&'a T) -> bool>[ <core::slice::Iter<'a, T> as Iterator>::position::<P> ](it: &mut core::slice::Iter<'a, T>, pred: P) -> (r: Option<usize>) where core::slice::Iter<'a, T>: Sized
    requires forall|x: &'a T| #[trigger] pred.requires((x,)),
    ensures
        r.is_some() ==> r.unwrap() < old(it).remaining().len()
            && pred.ensures((old(it).remaining()[r.unwrap() as int],), true)
            && forall|i: int| 0 <= i < r.unwrap() ==> pred.ensures((#[trigger] old(it).remaining()[i],), false),
        r.is_none() ==> forall|i: int| 0 <= i < old(it).remaining().len() ==> pred.ensures((#[trigger] old(it).remaining()[i],), false),
;

#[verifier::external_body] pub fn fmt_opaque() -> String { String::new() }

/// "i is a char boundary inside the input of the parse in progress"
pub uninterp spec fn bnd(i: int) -> bool;

#[derive(Debug, Clone, Copy, PartialEq, Eq)]
pub struct Span { start: usize, end: usize }
impl Span {
    pub closed spec fn s(&self) -> int { self.start as int }
    pub closed spec fn e(&self) -> int { self.end as int }
    pub open spec fn label_ok(&self) -> bool { self.s() <= self.e() && bnd(self.s()) && bnd(self.e()) }
    pub(crate) fn new(start: usize, end: usize) -> (r: Self) requires start <= end ensures r.s() == start, r.e() == end { Self { start, end } }
    pub(crate) fn pos(pos: usize) -> (r: Self) ensures r.s() == pos, r.e() == pos { Self { start: pos, end: pos } }
    pub fn start(&self) -> (r: usize) ensures r == self.s() { self.start }
    pub fn end(&self) -> (r: usize) ensures r == self.e() { self.end }
}

pub struct Label { x: u8 }
#[verifier::external_body] pub fn mk_label(sp: Span) -> Label requires sp.label_ok() { Label { x: 0 } }
#[verifier::external_body] pub fn mk_label_msg(sp: Span, m: &str) -> Label requires sp.label_ok() { Label { x: 0 } }

pub struct SourceDiag { x: u8 }
impl SourceDiag {
    #[verifier::external_body] pub fn warning(msg: String, l: Label) -> SourceDiag { SourceDiag { x: 0 } }
    #[verifier::external_body] pub fn label(self, l: Label) -> SourceDiag { self }
    #[verifier::external_body] pub fn hint(self, h: &str) -> SourceDiag { self }
}

#[derive(Debug, Clone, Copy, PartialEq, Eq)]
pub enum TokenKind { Word, OpenParen, CloseParen, Tilde, Eof }
#[derive(Debug, Clone, Copy, PartialEq, Eq)]
pub struct Token { pub kind: TokenKind, pub span: Span }

pub open spec fn toks_ok(ts: Seq<Token>) -> bool {
    forall|i: int| 0 <= i < ts.len() ==> (#[trigger] ts[i]).span.s() < ts[i].span.e() && bnd(ts[i].span.s()) && bnd(ts[i].span.e())
}

pub struct BlockParser<'t> { tokens: &'t [Token], pub(crate) current: usize, nwarn: usize }

impl<'t> BlockParser<'t> {
    pub closed spec fn wf(&self) -> bool { self.current <= self.tokens@.len() && toks_ok(self.tokens@) }
    pub closed spec fn cur(&self) -> int { self.current as int }
    pub closed spec fn toks(&self) -> Seq<Token> { self.tokens@ }

    pub(crate) fn warn(&mut self, warn: SourceDiag)
        ensures final(self).cur() == old(self).cur(), final(self).toks() == old(self).toks(), final(self).wf() == old(self).wf()
    { self.nwarn = if self.nwarn < 1000 { self.nwarn + 1 } else { self.nwarn }; }

    pub(crate) fn with_recover<F, O>(&mut self, f: F) -> (r: Option<O>)
    where
        F: FnOnce(&mut Self) -> Option<O>,
        requires old(self).wf(), f.requires((&mut *old(self),)),
    {
        let old_current = self.current;
        let r = f(self);
        if r.is_none() {
            self.current = old_current;
        }
        r
    }

    pub(crate) fn rest(&self) -> (r: &'t [Token])
        requires self.wf()
        ensures r@ == self.toks().subrange(self.cur(), self.toks().len() as int)
    { self.tokens.split_at(self.current).1 }

    pub(crate) fn peek(&self) -> (r: TokenKind)
        requires self.wf()
        ensures self.cur() < self.toks().len() ==> r == self.toks()[self.cur()].kind, self.cur() >= self.toks().len() ==> r == TokenKind::Eof
    {
        self.tokens
            .get(self.current)
            .map(|token| -> (k: TokenKind) ensures k == token.kind { token.kind })
            .unwrap_or(TokenKind::Eof)
    }

    pub(crate) fn at(&self, kind: TokenKind) -> (r: bool) requires self.wf() ensures r == (self.cur() < self.toks().len() && self.toks()[self.cur()].kind == kind || (self.cur() >= self.toks().len() && kind == TokenKind::Eof)) {
        self.peek() == kind
    }

    pub(crate) fn next_token(&mut self) -> (r: Option<Token>)
        requires old(self).wf()
        ensures final(self).wf(), final(self).toks() == old(self).toks(),
            r.is_some() ==> old(self).cur() < old(self).toks().len() && r.unwrap() == old(self).toks()[old(self).cur()] && final(self).cur() == old(self).cur() + 1,
            r.is_none() ==> final(self).cur() == old(self).cur() && old(self).cur() >= old(self).toks().len(),
    {
        if let Some(token) = self.tokens.get(self.current) {
            self.current += 1;
            Some(*token)
        } else {
            None
        }
    }

    pub(crate) fn bump_any(&mut self) -> (r: Token)
        requires old(self).wf(), old(self).cur() < old(self).toks().len()
        ensures final(self).wf(), final(self).toks() == old(self).toks(), r == old(self).toks()[old(self).cur()], final(self).cur() == old(self).cur() + 1
    {
        self.next_token()
            .expect("Expected token, but there was none")
    }

    pub(crate) fn bump(&mut self, expected: TokenKind) -> (r: Token)
        requires old(self).wf(), old(self).cur() < old(self).toks().len(), old(self).toks()[old(self).cur()].kind == expected
        ensures final(self).wf(), final(self).toks() == old(self).toks(), r == old(self).toks()[old(self).cur()], final(self).cur() == old(self).cur() + 1
    {
        let token = self.bump_any();
        assert_eq!(
            token.kind, expected,
            "Expected '{expected:?}', but got '{:?}'",
            token.kind
        );
        token
    }

    pub(crate) fn consume(&mut self, expected: TokenKind) -> (r: Option<Token>)
        requires old(self).wf(), expected != TokenKind::Eof
        ensures final(self).wf(), final(self).toks() == old(self).toks(),
            r.is_some() ==> old(self).cur() < old(self).toks().len() && r.unwrap() == old(self).toks()[old(self).cur()] && r.unwrap().kind == expected && final(self).cur() == old(self).cur() + 1,
            r.is_none() ==> final(self).cur() == old(self).cur(),
    {
        if self.at(expected) {
            Some(self.bump_any())
        } else {
            None
        }
    }

    pub(crate) fn until(&mut self, f: impl Fn(TokenKind) -> bool) -> (r: Option<&'t [Token]>)
        requires old(self).wf(), forall|k: TokenKind| #[trigger] f.requires((k,)),
        ensures final(self).wf(), final(self).toks() == old(self).toks(),
            r.is_none() ==> final(self).cur() == old(self).cur(),
            r.is_some() ==> old(self).cur() <= final(self).cur() < old(self).toks().len()
                && f.ensures((old(self).toks()[final(self).cur()].kind,), true),
    {
        let rest = self.rest();
        let pos = rest.iter().position(|t: &Token| -> (b: bool) requires f.requires((t.kind,)) ensures f.ensures((t.kind,), b) { f(t.kind) })?;
        let s = &rest[..pos];
        self.current += pos;
        Some(s)
    }
}

const INGREDIENT: &'static str = "ingredient";
const COOKWARE: &'static str = "cookware";
const TIMER: &'static str = "timer";

fn check_note(bp: &mut BlockParser, container: &'static str)
    requires old(bp).wf(), old(bp).cur() >= 1,
{
    let __a0 = bp
        .with_recover(|bp: &mut BlockParser| -> (o: Option<()>) requires old(bp).wf(), old(bp).cur() >= 1 {
            let start = bp.consume(T!['('])?.span.start();
            let _ = bp.until(|t: TokenKind| -> (b: bool) ensures b == (t == TokenKind::CloseParen) { t == T![')'] })?;
            let end = bp.bump(T![')']).span.end();
            bp.warn(
                warning!(
                    format!("A {container} cannot have a note, it will be text"),
                    label!(Span::new(start, end)),
                )
                .label(label!(Span::pos(start - 1), "add a space here")) // this at least will be the marker character
                .hint("Notes are only available in ingredients and cookware items"),
            );
            None::<()> // always backtrack
        })
        .is_none();
    assert!(__a0);
}

} // verus!
fn main() {}
