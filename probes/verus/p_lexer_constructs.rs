use vstd::prelude::*;
use std::str::Chars;
verus! {

#[derive(Debug, Clone, Copy, PartialEq, Eq)]
pub enum TokenKind { MetadataStart, TextStep, Minus, Newline, Int, ZeroInt, Punctuation, Word, Escaped, Whitespace, LineComment, BlockComment, Eof, Colon }

pub struct Token { pub kind: TokenKind, pub len: u32 }
impl Token { fn new(kind: TokenKind, len: u32) -> Token { Token { kind, len } } }

pub struct Cursor<'a> {
    len_remaining: usize,
    chars: Chars<'a>,
}

pub const EOF_CHAR: char = '\0';

pub uninterp spec fn rem(c: &Chars<'_>) -> nat;

pub assume_specification<'a>[ Chars::<'a>::next ](c: &mut Chars<'a>) -> (r: Option<char>)
    ensures r.is_none() ==> rem(final(c)) == rem(old(c)) && rem(old(c)) == 0,
            r.is_some() ==> rem(final(c)) < rem(old(c)) && rem(old(c)) - rem(final(c)) <= 4;

pub assume_specification[ char::is_ascii_digit ](c: &char) -> (r: bool);

fn is_whitespace(c: char) -> bool {
    c == ' ' || c == '\t'
}

impl<'a> Cursor<'a> {
    #[verifier::external_body]
    fn first(&self) -> (r: char) { self.chars.clone().next().unwrap_or(EOF_CHAR) }

    #[verifier::external_body]
    fn is_eof(&self) -> (r: bool) ensures r == (rem(&self.chars) == 0) { self.chars.as_str().is_empty() }

    fn bump(&mut self) -> (r: Option<char>)
        ensures r.is_none() ==> rem(&final(self).chars) == rem(&old(self).chars),
            r.is_some() ==> rem(&final(self).chars) < rem(&old(self).chars),
            final(self).len_remaining == old(self).len_remaining,
    {
        let c = self.chars.next()?;
        Some(c)
    }

    fn eat_while(&mut self, mut predicate: impl FnMut(char) -> bool)
    {
        while predicate(self.first()) && !self.is_eof()
            decreases rem(&self.chars)
        {
            self.bump();
        }
    }

    fn number(&mut self, c: char) -> TokenKind {
        self.eat_while(|c| c.is_ascii_digit());
        TokenKind::Int
    }

    fn advance_token(&mut self) -> Token {
        let current = match self.bump() {
            Some(c) => c,
            None => return Token::new(TokenKind::Eof, 0),
        };
        let token_kind = match current {
            '\\' => {
                self.bump(); // any
                TokenKind::Escaped
            }
            '>' => {
                if self.first() == '>' {
                    self.bump(); // '>'
                    TokenKind::MetadataStart
                } else {
                    TokenKind::TextStep
                }
            }
            '-' => match self.first() {
                '-' => TokenKind::LineComment,
                _ => TokenKind::Minus,
            },
            '[' if self.first() == '-' => TokenKind::BlockComment,
            '\n' => TokenKind::Newline,
            '\r' if self.first() == '\n' => {
                self.bump(); // '\n'
                TokenKind::Newline
            }
            c @ '0'..='9' => self.number(c),
            ':' => TokenKind::Colon,
            c if is_whitespace(c) => TokenKind::Whitespace,
            _ => TokenKind::Word,
        };
        debug_assert!(true);
        let token = Token::new(token_kind, 1);
        token
    }
}

} // verus!
fn main() {}
