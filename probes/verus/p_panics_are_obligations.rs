use vstd::prelude::*;
verus! {

pub enum Ev { Front(u8), Meta(u8), Text(u8) }

fn build(events: Vec<Ev>) -> (r: Vec<u8>)
{
    let mut blocks = Vec::new();
    for event in events {
        match event {
            Ev::Front(_) => todo!(),
            Ev::Meta(k) => blocks.push(k),
            Ev::Text(t) => { assert!(t < 200); blocks.push(t) }
        }
    }
    blocks
}

fn g(x: Option<u8>, s: &str, a: usize, b: usize) -> u8 {
    let y = x.expect("must be some");
    if y == 3 { panic!("Bad {y:?}"); }
    let z = &s[a..b];
    if z.is_empty() { unreachable!() }
    y
}

} // verus!
fn main() {}
