use cooklang::{CooklangParser, Extensions, Converter};
fn p(s: &str) { let parser = CooklangParser::new(Extensions::all(), Converter::default()); let _ = parser.parse(s); }
#[test] fn d1_escaped_multibyte() { p("a \\é b"); }
#[test] fn d2_trailing_backslash() { p("abc \\"); }
#[test] fn d3_time_overflow() { p("---\ntime: 99999999h\n---\nstep"); }
#[test] fn d5_note_after_multibyte() { let parser = CooklangParser::new(Extensions::all(), Converter::default()); let r = parser.parse("~thé(note)"); let mut out = Vec::new(); r.report().write("f", "~thé(note)", false, &mut out).unwrap(); }
#[test] fn d7_ast_frontmatter() { let pp = cooklang::parser::PullParser::new("---\na: 1\n---\nstep", Extensions::all()); let _ = cooklang::ast::build_ast(pp); }
#[test] fn d4_aisle() { let _ = cooklang::aisle::parse("[a]\n|"); }
// d9 (fixed by 499bf89): before the fix this printed a warning for the effective lock
#[test] fn d9_effective_scaling_lock_warns() { let parser = CooklangParser::new(Extensions::all(), Converter::default()); let r = parser.parse("@flour{=100%g}\n"); assert_eq!(r.report().iter().count(), 0, "a well-formed recipe must not produce a warning"); }
// d10 (fixed by 882e953): before the fix this panicked with "attempt to add with overflow" (debug) or returned a wrapped number (release)
#[test] fn d10_time_total_overflow() { let parser = CooklangParser::new(Extensions::all(), Converter::default()); let r = parser.parse("---\nprep time: 4294967295\ncook time: 4294967295\n---\nstep"); let (recipe, _) = r.into_result().unwrap(); let t = recipe.metadata.time(&Converter::default()).unwrap(); assert_eq!(t.total(), u32::MAX); }
